#!/bin/bash
# Soak: thorough tier of every check under a given seed; prints one summary line per check.
# usage: tools_soak.sh <seed> [checks...]
seed=$1; shift
checks=${@:-C10 C11 C13 C12 C20 C17 C03 C04 C16 C09 C08 C15}
for c in $checks; do
  out=$(VERIF_SEED=$seed /venv/bin/python -m dst $c --tier thorough --no-shrink 2>&1 | grep -v "^  \.\." )
  echo "== seed=$seed $c :: $(echo "$out" | tail -1)"
  echo "$out" | grep "VIOLATION\|oracle=\|HARNESS" | cut -c1-500 | head -8
done
