"""Run a check against a scratch copy of /repo carrying a patch (sensitivity testing).

usage: tools_mutant.py (--revert <commit> | --apply <patch.diff>)... -- <args for `python -m dst`>
The copy lives under /tmp/scratch/mut-<pid> and is removed afterwards.  /repo itself is never touched.
"""
import os, shutil, subprocess, sys

def main():
    a = sys.argv[1:]
    ops = []
    while a and a[0] != "--":
        ops.append((a[0], a[1])); a = a[2:]
    rest = a[1:]
    dst = f"/tmp/scratch/mut-{os.getpid()}"
    os.makedirs("/tmp/scratch", exist_ok=True)
    shutil.rmtree(dst, ignore_errors=True)
    subprocess.check_call(["rsync", "-a", "--exclude", ".git", "--exclude", "__pycache__", "/repo/", dst + "/"])
    try:
        for op, arg in ops:
            if op == "--revert":
                diff = subprocess.check_output(["git", "-C", "/repo", "show", arg])
                subprocess.run(["patch", "-R", "-p1", "-s"], input=diff, cwd=dst, check=True)
            elif op == "--apply":
                subprocess.run(["patch", "-p1", "-s"], input=open(arg, "rb").read(), cwd=dst, check=True)
            else:
                raise SystemExit(f"unknown op {op}")
        env = dict(os.environ, VERIF_REPO=dst)
        return subprocess.call(["/venv/bin/python", "-m", "dst"] + rest, env=env, cwd="/verif")
    finally:
        shutil.rmtree(dst, ignore_errors=True)

if __name__ == "__main__":
    sys.exit(main())
