"""Run a check against a scratch copy of /repo carrying a patch (sensitivity testing).

usage: tools_mutant.py (--revert <commit> | --apply <patch.diff>)... -- <args for `python -m dst`>
The copy lives under /tmp/scratch/mut-<pid> and is removed afterwards.  /repo itself is never touched.
"""
import os, shutil, subprocess, sys

def main():
    a = sys.argv[1:]
    ops = []
    while a and a[0] != "--":
        ops.append((a[0], a[1])); a = a[2:]
    rest = a[1:]
    dst = f"/tmp/scratch/mut-{os.getpid()}"
    os.makedirs("/tmp/scratch", exist_ok=True)
    shutil.rmtree(dst, ignore_errors=True)
    subprocess.check_call(["rsync", "-a", "--exclude", ".git", "--exclude", "__pycache__", "/repo/", dst + "/"])
    try:
        for op, arg in ops:
            if op == "--revert":
                diff = subprocess.check_output(["git", "-C", "/repo", "show", arg])
                subprocess.run(["patch", "-R", "-p1", "-s"], input=diff, cwd=dst, check=True)
            elif op == "--apply":
                subprocess.run(["patch", "-p1", "-s"], input=open(arg, "rb").read(), cwd=dst, check=True)
            elif op == "--mutant":
                import json
                reg = json.load(open("/verif/mutants.json"))
                m = [x for x in reg["mutants"] if x["id"] == arg][0]
                for r in m.get("revert", []):
                    diff = subprocess.check_output(["git", "-C", "/repo", "show", r])
                    subprocess.run(["patch", "-R", "-p1", "-s"], input=diff, cwd=dst, check=True)
                for a in m.get("apply", []):
                    subprocess.run(["patch", "-p1", "-s"], input=open(os.path.join("/verif", a), "rb").read(), cwd=dst, check=True)
                for e in m.get("edits", []):
                    fp = os.path.join(dst, e["file"])
                    src = open(fp).read()
                    n = src.count(e["old"])
                    if e.get("nth") == "all" and n >= 1:
                        src = src.replace(e["old"], e["new"])
                    elif isinstance(e.get("nth"), int) and n > e["nth"]:
                        parts = src.split(e["old"])
                        k = e["nth"]
                        src = e["old"].join(parts[: k + 1]) + e["new"] + e["old"].join(parts[k + 1 :])
                    elif n == 1:
                        src = src.replace(e["old"], e["new"])
                    else:
                        raise SystemExit(f"mutant {arg}: pattern occurs {n} times in {e['file']}")
                    open(fp, "w").write(src)
            else:
                raise SystemExit(f"unknown op {op}")
        env = dict(os.environ, VERIF_REPO=dst)
        return subprocess.call(["/venv/bin/python", "-m", "dst"] + rest, env=env, cwd="/verif")
    finally:
        shutil.rmtree(dst, ignore_errors=True)
        shutil.rmtree(f"/tmp/scratch/dst-out-mut-{os.getpid()}", ignore_errors=True)

if __name__ == "__main__":
    sys.exit(main())
