"""Generate MANIFEST.json from one table (keeps the file valid and consistent)."""
import json, os

HERE = os.path.dirname(os.path.abspath(__file__))
PY = "/venv/bin/python"

NA = {
    "C01": "relates two outputs of one stateless call (force vs. finite-difference derivative of the energy) over inputs/configurations only: no schedule, clock, fault, crash point or history for a simulator to own",
    "C02": "relates two independent stateless calls (x and Rx+t); a pure function of the input geometry with nothing to schedule, crash or interleave",
    "C05": "relates independent stateless calls (alone vs. inside a batch, permuted, re-padded); batch rows are evaluated by one tensor operation, not scheduled (per-trajectory isolation inside a running stochastic engine is decided under C17)",
    "C06": "closed-form integrals compared with an independent evaluation of the published equations: a pure function of element pair, distance, orientation and density",
    "C07": "correctness of derivatives of a single call; the one history-dependent defect its text mentions (backward pass using another job's method/tolerance) is a call-interleaving matter decided under C15",
    "C14": "algebraic identities among the outputs of one call; no state, fault, order or history",
    "C18": "validation of the arguments of single calls; rejected calls appear in C15 only as failed jobs whose aftermath on later jobs is checked",
    "C19": "asymptotic behaviour of a pure function of geometry (fragment separation, cutoff); nothing to schedule or crash",
}

CHECKS = {}


def check(pid, level, text, note, technique, engine, design):
    CHECKS[pid] = {
        "property_id": pid,
        "quick_cmd": f"{PY} -m dst {pid} --tier quick",
        "thorough_cmd": f"{PY} -m dst {pid} --tier thorough",
        "evidence_file": f"/verif/evidence/{pid}.json",
        "replay_cmd_template": f"{PY} -m dst {pid} --replay {{path}}",
        "engine": engine,
        "level_claimed": {"category": level, "text": text, "design_ref": design},
        "level_note": note,
        "technique": technique,
    }


check(
    "C10",
    "fault_enumeration",
    "Seeded sampling of crash points and crash sequences: every run executes the real MD engine, HDF5/XYZ writers and checkpoint code under a simulator-owned I/O seam; 1-3 crashes per run (hard kill at a low-level I/O event incl. torn writes, hard kill at a Python line event, exception unwinding, ENOSPC on the checkpoint path, crashes inside resume initialisation) with resume after each; the final files must equal those of the uninterrupted run exactly and the checkpoint on disk must load after every crash. Sampling, not exhaustive: a clean batch is evidence, not proof.",
    "Crash = process death (page cache survives). HDF5 low-level driver substituted by h5py's file-object driver so that each pwrite is an event. Engines: BOMD, Langevin, XL-BOMD k=3..9, damped XL, KSA, excited-state BOMD / XL-BOMD / XL-ESMD (stub with synthetic amplitudes and transition densities, and real), surface hopping (model engine and three pinned production runs), UHF BOMD/Langevin on the real driver; options incl. write_mo, transition properties, transition-density cadence, reuse_P on/off (also for production surface hopping), an output prefix already used by an earlier completed run. Electronic structure is a stub for most runs (real SEQM in a stated fraction). Two committed known findings, matched by site, not by property id: the HDF5 torn-flush window (crash site inside a flush/close burst) and production XL-ESMD with transition properties requested (engine + option + TypeError of a resuming incarnation at the transition_dipole line; record 4 of every run).",
    "deterministic simulation: seeded crash/fault schedules over an I/O-event and line-event clock, fork-per-incarnation, exact comparison with a fault-free reference run",
    "mdsim",
    "DESIGN.md section 5 (C10)",
)

check(
    "C11",
    "exploration",
    "Seeded exploration of the product lattice of cadences (data, coordinates, velocities, forces, nonadiabatic, transition densities, XYZ, screen, checkpoint; values 0, 1..11, = run length, > run length) x run length x molecule-id subsets (incl. empty) x engines x 0-2 crash+resume points. Each configuration is run by the real engines; every stream's labels are compared with a small executable reference model (initial snapshot + multiples of its own cadence, nothing else, absent when 0) and every stored row is compared exactly with the row of the same label in a dense (all cadences = 1) twin run of the same seed; every XYZ frame (coordinates and comment line with E_total) equals the dense twin's frame of the same step.",
    "Assumes output cadences must not influence the dynamics (exact equality with the dense twin). The transition-density stream (documented own cadence) is checked like the listed ones. Stub electronic structure (incl. synthetic excited-state outputs and the model surface-hopping engine) except a stated real-driver fraction.",
    "deterministic simulation: append-only output logs over simulated time (also across resumed incarnations) checked against a reference model and a dense twin run",
    "mdsim",
    "DESIGN.md section 5 (C11)",
)

check(
    "C13",
    "exploration",
    "Seeded histories of prior RNG consumption, seeds, temperatures (incl. 0 K), COM-removal modes and strides, user velocity fields, padded batches and all engines (ground state, excited-state BOMD/XL-BOMD/XL-ESMD, model and production surface hopping); _zero_com, initialize_velocity and the integrator step are wrapped so that every application is observed. Exact oracles: same seed => bit-identical files whatever was drawn before; seed+1 => different velocities; step-0 temperature = target (1e-10) under the documented degrees of freedom; P (and L when requested) vanish and kinetic energy is restored after every removal; padding atoms never move; user velocities are the step-0 row; the velocities at entry of the first integrator step equal the step-0 row bit for bit.",
    "Configurations the library refuses loudly (n_dof <= 0, COM removal at rest) are outside the domain; linear molecules are never combined with angular removal (manual: not auto-detected).",
    "deterministic simulation: simulator-owned random stream (prior-draw histories, seeds) and per-application invariants observed through method wrapping",
    "mdsim",
    "DESIGN.md section 5 (C13)",
)

check(
    "C08",
    "exploration",
    "Seeded FAMILIES of NVE runs from one phase-space point on the real integrator: dt, dt/2, dt/4 (trajectory-error and energy-fluctuation ratios must be 4 within a frozen window), forward / velocity reversal / backward (must retrace), and variants that must not change the trajectory (density reuse off, periodic COM removal from a P=L=0 state, crash+resume in the middle, a reused driver object, output cadences that are not multiples of one another). Momenta are observed at every step through a wrapper; the HDF5 history is checked row by row (Ek, T, Ep, forces are those of the positions/velocities written for the same step) and against an independent NumPy velocity-Verlet with its own CODATA unit conversions.",
    "Stub potential (exact forces known) decides order/reversibility/conservation; real SEQM families (randomly rotated, eps 1e-10) check ratios, drift, reversibility. The axis-aligned real start geometry is a committed known finding matched by driver=real AND unrotated geometry. One pinned excited-state history (overlap series switch crossed exactly at a step) guards fix d7687a5. Runs of 40-130 steps: ps-scale drift not reached.",
    "deterministic simulation: seeded run families (dt-halving, velocity reversal, crash+resume) of the real MD engine, per-step invariants through method wrapping, history oracles against an independent reference integrator",
    "mdsim",
    "DESIGN.md section 5 (C08)",
)

check(
    "C09",
    "exploration",
    "Four layers on the real XL_BOMD/KSA_XL_BOMD objects. Recurrence: the real integrator step (real coefficient window and history-slot arithmetic) driven with synthetic densities on a frozen geometry; fixed point to round-off and bounded, non-growing response to a perturbation injected at every buffer phase, for every k in 3..9, every phase, a gamma grid and both variants - the k x phase space is enumerated completely in every run. Restart: crash+resume at every buffer phase must continue exactly (density and transition-density history made visible in the files; plain, Krylov, damped, excited-state XL-BOMD and XL-ESMD). Reuse: a driver object used before starts its second run like a new one. Consistency: real SEQM, XL energy/forces at P = converged D equal the SCF ones (plain, Krylov rank 1-4, T_el <= 1500 K; also after the history SCF at R0 - atoms moved - XL at R1 on the same objects, with a geometry-dependent learned_parameters callable and a pair crossing a finite cutoff) and do not depend on zero-padded batch mates (T_el up to 8000 K). Scaling: real SEQM shadow-energy fluctuation ~ dt^2, no drift, convergence to the BOMD trajectory (ground state; XL-ESMD and excited-state XL-BOMD against excited-state BOMD).",
    "Stability is sampled over a response grid (not a root-locus proof). Frozen bounds: amplification <= 2, growth <= 1.05, fixed point 1e-12. Above 1500 K thermal occupations legitimately move the XL energy off the zero-temperature SCF one; only batch independence is decided there. Committed known finding: production XL-ESMD on excited states above the first (matched by engine and active state in the scaling layer; one pinned family per run).",
    "deterministic simulation: real XL-BOMD step driven by a stub density response over the complete k x buffer-phase grid, crash/restart at every phase, plus seeded real-driver families",
    "mdsim",
    "DESIGN.md section 5 (C09)",
)

check(
    "C12",
    "exploration",
    "The simulator owns the random stream: a recording proxy for torch.randn_like captures the noise of EVERY thermostat application and a wrapper captures velocities before/after, so the fluctuation-dissipation update v' = c1 v + c2 xi is checked exactly (1e-6, independent CODATA constants) over dt/tau in 1e-4..10, T in 0..2000 K, masses H..Cl, padded batches, Langevin BOMD, damped XL-BOMD/KSA/XL-ESMD, model and production surface hopping, reused thermostat objects; also the schedule (two half-step applications around the force evaluation, first and last operation of the step), the invariance identity on the engine's own tensors, the limits (tau=inf equals NVE bit for bit, deviation ~ tau^-1/2, T=0 only removes energy) and a deliberately coarse end-to-end mean temperature on exactly solvable stub systems, with and without periodic centre-of-mass removal.",
    "The statistical layer is coarse by design (max(3%, 6 sigma)); the exact layers decide the identity. Configurational sampling accuracy on anharmonic real surfaces is not reached.",
    "deterministic simulation: simulator-owned RNG (recording proxy) turns the statistical statement into an exact per-application check; seeded (dt, tau, T, mass, engine) exploration",
    "mdsim",
    "DESIGN.md section 5 (C12)",
)

check(
    "C15",
    "exploration",
    "One process as a shared-state machine: seeded call histories (2-8 operations) over a pool of ~55 heterogeneous public-API jobs (single points over methods/solvers/spin/charge, CIS/RPA, differentiable jobs split into forward and backward phases, short MD runs of six engines incl. XL-ESMD, steepest descent, PM6 d-element and learned-parameter jobs, single-precision jobs incl. a stratum whose FIRST calculation is single precision, jobs the library rejects), with generated reuse of Constants / settings dictionary / driver and MD-driver objects, interleaved and summed backward passes, call-boundary aborts, prior RNG use and thread counts. Every job is compared with the same job run as the first and only thing in a fresh process: bit for bit at one thread, 1e-9 across thread counts; success/failure parity.",
    "Sequential callers only (the statement speaks of compute threads, not caller threads). A driver is reused only for molecules whose elements it was built for. The native intra-op pool's own schedule is not controlled.",
    "deterministic simulation: seeded schedules of API calls (interleavings of forward/backward phases, object reuse, injected aborts) against a fresh-process reference model",
    "histsim",
    "DESIGN.md section 5 (C15)",
)

check(
    "C20",
    "exploration",
    "The real Geometry_Optimization_SD.run/onestep with a forward hook on its driver recording every evaluation (geometry, energy, forces). Trace oracles: energy never rises for step factors <= 1/L; each evaluation is at x + alpha F of the previous one; padding atoms never move; the run stops exactly at the first evaluation whose largest force component is <= tol or at the cap (incl. starts next to a saddle point, where a member's force dips below the tolerance and rises again); the printed verdict says which; returned (max force, dE) and molecule.Etot/force are those of the last evaluation; a molecule's path does not depend on its batch mates (solo twin); a faulted carried density between evaluations does not change the path beyond the SCF threshold.",
    "'Sufficiently small' is made precise from a crude curvature bound of the stub potential; real SEQM uses alpha <= 0.005.",
    "deterministic simulation: stateful optimiser stepped under an observing seam, trace oracles, seeded configurations incl. caps hit before convergence and carried-density faults",
    "mdsim",
    "DESIGN.md section 5 (C20)",
)

check(
    "C03",
    "exploration",
    "SCF sessions: a batch (neutral, cations, anions, doublets, triplets, zero-padded mixtures) followed through a seeded history of MOVE / SOLVE(solver incl. the Krylov solver x SP2 x eps x RHF/UHF x scf_backward 0/1/2, AM1/PM3/MNDO and PM6 with d orbitals, cold or carried start, iteration cap) / FAULT(noise, scaling, de-idempotisation, stale, asymmetric) operations on the carried density. Liveness: every solve runs under a line-event clock over seqm/ frames (bounded liveness in simulated time, replayable; non-termination is reported with the file:line where the clock ran out). Safety: for every molecule flagged converged, symmetry, trace, charge sum, idempotency, commutator with the Fock matrix rebuilt from the returned density, an independent re-diagonalisation and the energy functional are within K x tau.",
    "Residuals use the repository's Fock builder (operator correctness is C06, not applicable) and an independent eigh. K frozen at >= 10 x the worst calibrated value: detects wrong/unconverged answers, not small regressions. Pool of 21 species (first row, H2S/HCl/SiH4, ions, radicals); PM6 with d orbitals restricted only; the Krylov solver is checked where gap/(2 kB T_el) > 25 and not combined with H2 / full-shell atoms (outside its domain); GPU not reached.",
    "deterministic simulation: seeded operation/fault histories on carried solver state, iteration caps as knobs, simulated-time liveness clock (sys.settrace line events)",
    "scfsim",
    "DESIGN.md section 5 (C03)",
)

check(
    "C04",
    "exploration",
    "The same SCF sessions restricted to near-equilibrium closed-shell molecules with gap > 2 eV: the density handed to a solve comes from the previous geometry, another solver (fixed/adaptive mixing, Pulay, Krylov; SP2 or diagonalisation; implicit or unrolled differentiable variants; PM6 with d orbitals), an RHF<->UHF-singlet switch or a faulted density, in any order. A generated path that raises where the reference path succeeds is a violation (path-fails). Every converged solve is compared (energy, forces, charges, orbital energies) with a reference solve of the same geometry (cold, diagonalisation, adaptive->Pulay, eps 1e-11) within K x tau; tightening chains (eps, eps/100, eps/1e4 from the same start) must not move away from the limit.",
    "Cross-solver agreement within one code base, not absolute correctness. Bounds are an order of magnitude above what the code achieves. Two committed known findings, each matched by site and reproduced by a pinned session: the batch-wide Pulay history that can land a molecule on an unstable stationary point, and the analytical force evaluator for H-Cl under PM3.",
    "deterministic simulation: seeded solver-path/start-density histories compared against a fixed reference path",
    "scfsim",
    "DESIGN.md section 5 (C04)",
)

check(
    "C17",
    "exploration",
    "The real SurfaceHoppingDynamics run loop (crossing detection, RK4 propagation, hop attempt, velocity rescaling, relabelling, hold-off counters, cache shifting) driven through the subclass seam the repository's own Tully script uses, with (a) a scripted stream of per-step energies, antisymmetric couplings with spikes up to 100/fs, gaps 1e-4-5 eV, state amplitudes with swaps, NAC vectors incl. exactly perpendicular ones, 2-8 states, 1-5 trajectories, fixed/adaptive sub-steps, decoherence on/off, hop draws recorded and scaled through an RNG proxy; (b) N-state analytic model trajectories; (c) the Tully script itself. Every call of the hop logic is observed: norm drift against the RK4 law and a sub-step-halved twin, hop target against the fewest-switches selection rule on the captured draw, accepted hops (direction, energy, smaller root), frustrated hops untouched, relabelling is a permutation of amplitudes and active index, and an isolation twin (one trajectory changed) leaves every other trajectory bit-identical.",
    "Electronic structure is supplied (scripted or analytic); real CIS electronic structure under surface hopping is exercised by the C10/C11/C12 real strata. With adaptive sub-steps the count is batch-global by design; isolation is compared up to the first step where that count differs.",
    "deterministic simulation: real hop logic stepped on a seeded scripted input stream with an RNG seam (recorded/forced draws), reference selection/energy/permutation rules, isolation and order twins",
    "shsim",
    "DESIGN.md section 5 (C17)",
)

check(
    "C16",
    "exploration",
    "Excited-state sessions: one Molecule object followed along neighbouring geometries with the Davidson solver's history carried (amplitudes, orbitals, density), guess reuse on/off, faults on the carried amplitudes (re-orthonormalised noise, stale by two geometries, permuted order, one vector replaced) and the available-memory probe set so that the subspace limit lies anywhere between 2n+3 and the full space (which also switches on chunking of the sigma build). Every solve is compared with a dense reference (the code's own sigma routine applied to unit vectors, then eigh; RPA through (A-B)^1/2 (A+B) (A-B)^1/2): lowest-n energies within 10 x tolerance, ascending, positive, orthonormal amplitudes, eigen-residual, RPA <= CIS, every row of a homogeneous batch and every member of a mixed batch against its own reference. Two twins on new objects: sessions in which the caller writes a loose SCF threshold (1e-4..1e-6) against a tightly converged ground state (20 x tolerance), and orbital-window sessions on a re-used Molecule against new objects at the same geometry.",
    "The reference uses the code's sigma routine (operator correctness is C06, not applicable). Guess reuse is generated only where the library implements it (homogeneous CIS); RPA and mixed batches see history through the carried density/orbitals. Two committed known findings matched by signature / site: the symmetry-blocked skipped root, and the orbital window cut by position after MO tracking on a re-used Molecule (window session AND second or later solve AND the new-objects twin).",
    "deterministic simulation: seeded solver histories with faults on carried state and a simulator-owned environment probe (available memory), checked against a dense reference model",
    "scfsim",
    "DESIGN.md section 5 (C16)",
)

PENDING = {}


def build():
    claimed = sorted(CHECKS)
    na = [{"property_id": k, "reason": v} for k, v in sorted(NA.items())]
    na += [{"property_id": k, "reason": v} for k, v in sorted(PENDING.items()) if k not in CHECKS]
    man = {
        "version": 1,
        "setup_cmd": f"{PY} -c \"import sys; sys.path.insert(0,'/verif'); from dst import repo; repo.load(); import torch, h5py, numpy, scipy, psutil, seqm; print('ok', seqm.__file__)\"",
        "hooks": {
            "guard": "PYSEQM_VERIF",
            "enable": "no source hooks: the checks patch module namespaces (esdriver, h5py, open, os, tempfile, torch, psutil, MAX_ITER) and use sys.settrace inside fork()ed children; PYSEQM_VERIF is reserved and unused",
            "baseline_off_cmd": "cd /repo && /venv/bin/python -m pytest -ra -q -p no:cacheprovider --timeout=900 --continue-on-collection-errors",
            "source_commits": [],
            "add_only": True,
        },
        "engines": [
            {"name": "mdsim", "path": "/verif/dst/mdsim.py", "serves_properties": ["C08", "C09", "C10", "C11", "C12", "C13", "C20"], "kind_free_text": "real MD engines + writers + checkpointing under an I/O seam, fork per process incarnation, stub or real electronic structure"},
            {"name": "histsim", "path": "/verif/dst/c15.py", "serves_properties": ["C15"], "kind_free_text": "one process as a shared-state machine; seeded call histories vs. fresh-process reference"},
            {"name": "scfsim", "path": "/verif/dst/scfsim.py", "serves_properties": ["C03", "C04", "C16"], "kind_free_text": "SCF / Davidson sessions with carried and faulted state, line-event liveness clock, memory probe seam"},
            {"name": "shsim", "path": "/verif/dst/c17.py", "serves_properties": ["C17"], "kind_free_text": "real surface-hopping logic on synthetic caches and N-state analytic models with a recording/forcing RNG proxy"},
        ],
        "checks": [CHECKS[k] for k in claimed],
        "not_applicable": na,
        "notes": "Fixed defects and open findings are listed in /verif/known_findings.json; DESIGN.md explains scope, seams and which seeded changes each check catches.",
    }
    with open(os.path.join(HERE, "MANIFEST.json"), "w") as fh:
        json.dump(man, fh, indent=1)
    return man


if __name__ == "__main__":
    for p in ("C03", "C04", "C08", "C09", "C11", "C12", "C13", "C15", "C16", "C17", "C20"):
        PENDING.setdefault(p, "designed (DESIGN.md section 5) but its check is not built yet; will be claimed when the check exists")
    m = build()
    print("checks:", [c["property_id"] for c in m["checks"]], "n/a:", [c["property_id"] for c in m["not_applicable"]])
