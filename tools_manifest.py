"""Generate MANIFEST.json from one table (keeps the file valid and consistent)."""
import json, os

HERE = os.path.dirname(os.path.abspath(__file__))
PY = "/venv/bin/python"

NA = {
    "C01": "relates two outputs of one stateless call (force vs. finite-difference derivative of the energy) over inputs/configurations only: no schedule, clock, fault, crash point or history for a simulator to own",
    "C02": "relates two independent stateless calls (x and Rx+t); a pure function of the input geometry with nothing to schedule, crash or interleave",
    "C05": "relates independent stateless calls (alone vs. inside a batch, permuted, re-padded); batch rows are evaluated by one tensor operation, not scheduled (per-trajectory isolation inside a running stochastic engine is decided under C17)",
    "C06": "closed-form integrals compared with an independent evaluation of the published equations: a pure function of element pair, distance, orientation and density",
    "C07": "correctness of derivatives of a single call; the one history-dependent defect its text mentions (backward pass using another job's method/tolerance) is a call-interleaving matter decided under C15",
    "C14": "algebraic identities among the outputs of one call; no state, fault, order or history",
    "C18": "validation of the arguments of single calls; rejected calls appear in C15 only as failed jobs whose aftermath on later jobs is checked",
    "C19": "asymptotic behaviour of a pure function of geometry (fragment separation, cutoff); nothing to schedule or crash",
}

CHECKS = {}


def check(pid, level, text, note, technique, engine, design):
    CHECKS[pid] = {
        "property_id": pid,
        "quick_cmd": f"{PY} -m dst {pid} --tier quick",
        "thorough_cmd": f"{PY} -m dst {pid} --tier thorough",
        "evidence_file": f"/verif/evidence/{pid}.json",
        "replay_cmd_template": f"{PY} -m dst {pid} --replay {{path}}",
        "engine": engine,
        "level_claimed": {"category": level, "text": text, "design_ref": design},
        "level_note": note,
        "technique": technique,
    }


check(
    "C10",
    "fault_enumeration",
    "Seeded sampling of crash points and crash sequences: every run executes the real MD engine, HDF5/XYZ writers and checkpoint code under a simulator-owned I/O seam; 1-3 crashes per run (hard kill at a low-level I/O event incl. torn writes, hard kill at a Python line event, exception unwinding, ENOSPC on the checkpoint path, crashes inside resume initialisation) with resume after each; the final files must equal those of the uninterrupted run exactly and the checkpoint on disk must load after every crash. Sampling, not exhaustive: a clean batch is evidence, not proof.",
    "Crash = process death (page cache survives). HDF5 low-level driver substituted by h5py's file-object driver so that each pwrite is an event. Electronic structure is a stub for most runs (real SEQM in a stated fraction). The HDF5 torn-flush window is a committed known finding and is matched by crash site, not by property id.",
    "deterministic simulation: seeded crash/fault schedules over an I/O-event and line-event clock, fork-per-incarnation, exact comparison with a fault-free reference run",
    "mdsim",
    "DESIGN.md section 5 (C10)",
)

check(
    "C11",
    "exploration",
    "Seeded exploration of the product lattice of cadences (data, coordinates, velocities, forces, nonadiabatic, XYZ, screen, checkpoint; values 0, 1..11, = run length, > run length) x run length x molecule-id subsets (incl. empty) x engines x 0-2 crash+resume points. Each configuration is run by the real engines; every stream's labels are compared with a small executable reference model (initial snapshot + multiples of its own cadence, nothing else, absent when 0) and every stored row is compared exactly with the row of the same label in a dense (all cadences = 1) twin run of the same seed.",
    "Assumes output cadences must not influence the dynamics (exact equality with the dense twin). Transition-density stream not checked (outside the statement). Stub electronic structure except a stated real-driver fraction that supplies the nonadiabatic stream.",
    "deterministic simulation: append-only output logs over simulated time (also across resumed incarnations) checked against a reference model and a dense twin run",
    "mdsim",
    "DESIGN.md section 5 (C11)",
)

check(
    "C13",
    "exploration",
    "Seeded histories of prior RNG consumption, seeds, temperatures (incl. 0 K), COM-removal modes and strides, user velocity fields, padded batches and all ground-state engines; _zero_com, initialize_velocity and the integrator step are wrapped so that every application is observed. Exact oracles: same seed => bit-identical files whatever was drawn before; seed+1 => different velocities; step-0 temperature = target (1e-10) under the documented degrees of freedom; P (and L when requested) vanish and kinetic energy is restored after every removal; padding atoms never move; user velocities are the step-0 row.",
    "Configurations the library refuses loudly (n_dof <= 0, COM removal at rest) are outside the domain; linear molecules are never combined with angular removal (manual: not auto-detected).",
    "deterministic simulation: simulator-owned random stream (prior-draw histories, seeds) and per-application invariants observed through method wrapping",
    "mdsim",
    "DESIGN.md section 5 (C13)",
)

PENDING = {}


def build():
    claimed = sorted(CHECKS)
    na = [{"property_id": k, "reason": v} for k, v in sorted(NA.items())]
    na += [{"property_id": k, "reason": v} for k, v in sorted(PENDING.items()) if k not in CHECKS]
    man = {
        "version": 1,
        "setup_cmd": f"{PY} -c \"import sys; sys.path.insert(0,'/verif'); from dst import repo; repo.load(); import torch, h5py, numpy, scipy, psutil, seqm; print('ok', seqm.__file__)\"",
        "hooks": {
            "guard": "PYSEQM_VERIF",
            "enable": "no source hooks: the checks patch module namespaces (esdriver, h5py, open, os, tempfile, torch, psutil, MAX_ITER) and use sys.settrace inside fork()ed children; PYSEQM_VERIF is reserved and unused",
            "baseline_off_cmd": "cd /repo && /venv/bin/python -m pytest -ra -q -p no:cacheprovider --timeout=900 --continue-on-collection-errors",
            "source_commits": [],
            "add_only": True,
        },
        "engines": [
            {"name": "mdsim", "path": "/verif/dst/mdsim.py", "serves_properties": ["C08", "C09", "C10", "C11", "C12", "C13", "C20"], "kind_free_text": "real MD engines + writers + checkpointing under an I/O seam, fork per process incarnation, stub or real electronic structure"},
            {"name": "histsim", "path": "/verif/dst/c15.py", "serves_properties": ["C15"], "kind_free_text": "one process as a shared-state machine; seeded call histories vs. fresh-process reference"},
            {"name": "scfsim", "path": "/verif/dst/scfsim.py", "serves_properties": ["C03", "C04", "C16"], "kind_free_text": "SCF / Davidson sessions with carried and faulted state, line-event liveness clock, memory probe seam"},
            {"name": "shsim", "path": "/verif/dst/c17.py", "serves_properties": ["C17"], "kind_free_text": "real surface-hopping logic on synthetic caches and N-state analytic models with a recording/forcing RNG proxy"},
        ],
        "checks": [CHECKS[k] for k in claimed],
        "not_applicable": na,
        "notes": "Fixed defects and open findings are listed in /verif/known_findings.json; DESIGN.md explains scope, seams and which seeded changes each check catches.",
    }
    with open(os.path.join(HERE, "MANIFEST.json"), "w") as fh:
        json.dump(man, fh, indent=1)
    return man


if __name__ == "__main__":
    for p in ("C03", "C04", "C08", "C09", "C11", "C12", "C13", "C15", "C16", "C17", "C20"):
        PENDING.setdefault(p, "designed (DESIGN.md section 5) but its check is not built yet; will be claimed when the check exists")
    m = build()
    print("checks:", [c["property_id"] for c in m["checks"]], "n/a:", [c["property_id"] for c in m["not_applicable"]])
