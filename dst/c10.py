"""C10 - a run killed at any instant and resumed equals the uninterrupted run.

Workload: one seeded MD configuration; reference = the same configuration run once, fault free.
Faults: 1-3 crashes (hard kill at an I/O event incl. torn writes, hard kill at a line event, soft
crash = exception unwinding through run()'s finally, checkpoint-path ENOSPC), one per incarnation,
possibly inside the resume initialisation.  Oracle: checkpoint on disk loads and is complete after
every crash; every non-crashed incarnation exits normally; final HDF5 datasets and XYZ bytes are
exactly those of the reference.
"""
import json
import os
import shutil

import numpy as np

from . import core, iosim, mdsim

PROP = "C10"

STUB_BATCHES = [["h2o"], ["h2o", "h2"], ["ch4", "h2o", "hf"], ["nh3", "nh3"], ["h2co", "ch4"], ["c2h4"], ["hf", "h2"]]
REAL_BATCHES = [["h2o"], ["h2o", "hf"], ["nh3"], ["hf", "hf"]]
REAL_EXC_BATCHES = [["h2co"], ["h2co", "h2co"]]


SOFT_SITES = ["xyz.write", "xyz.flush", "xyz.close", "ckpt.save", "ckpt.mkstemp", "os.replace", "os.remove", "h5.open"]


def gen_cfg(rng, real_frac=0.06, allow_long=True, engines=None):
    real = rng.random() < real_frac
    if real:
        eng = rng.choice(engines or ["basic", "langevin", "xl", "ksa", "xl_damp", "exc_basic", "exc_xl", "xl_esmd", "sh"])
    else:
        eng = rng.choice(engines or ["basic", "langevin", "xl", "xl", "ksa", "ksa", "xl_damp", "sh_model", "sh_model", "exc_basic", "exc_xl", "xl_esmd"])
        if eng not in mdsim.STUB_OK:
            real = True
    cfg = {"engine": eng, "driver": "real" if real else "stub"}
    if real:
        if eng in ("exc_basic", "exc_xl", "xl_esmd", "sh"):
            cfg["batch"] = rng.choice(REAL_EXC_BATCHES)
            cfg["steps"] = rng.randint(3, 6)
            cfg["n_states"] = 2 if eng == "sh" else 3
            if eng == "sh":
                # documented nonadiabatic options (all must survive the checkpoint round trip)
                cfg["nonadiabatic"] = rng.choice([{}, {"tdc_method": "overlap"}, {"tdc_method": "overlap", "detect_crossings": False}, {"decohere_on_hop": True}, {"detect_crossings": False}])
        else:
            cfg["batch"] = rng.choice(REAL_BATCHES)
            cfg["steps"] = rng.randint(4, 9)
        cfg["rotate"] = rng.randrange(1 << 30)
        cfg["scf_eps"] = 1.0e-8
        if eng in ("basic", "langevin") and rng.random() < 0.35:
            cfg["uhf"] = True  # unrestricted BOMD/Langevin (XL-BOMD refuses unrestricted densities loudly)
        if eng in ("basic", "langevin", "xl", "xl_damp") and rng.random() < 0.3:
            # ions and (unrestricted only) a radical: the electron count must survive the checkpoint round trip
            cfg["batch"], cfg["charges"], cfg["mult"] = rng.choice([(["oh"], [-1], None), (["nh4"], [1], None), (["nh4", "h2o"], [1, 0], None), (["oh", "hf"], [-1, 0], None)] + ([(["ch3"], None, [2])] if cfg.get("uhf") else []))
    else:
        cfg["batch"] = rng.choice(STUB_BATCHES)
        cfg["steps"] = rng.randint(4, 40)
        if allow_long and rng.random() < 0.02:
            cfg["steps"] = rng.choice([120, 250])
        cfg["stub"] = {"pot": rng.choice(["harm", "morse"]), "gamma": rng.choice([0.0, 0.3, 0.8])}
        if rng.random() < 0.3:
            cfg["extra_pad"] = rng.randint(1, 2)
            cfg["pad_coords"] = True
        if eng in ("basic", "langevin", "xl", "ksa", "xl_damp") and rng.random() < 0.12:
            # ions (the Molecule object validates the electron count it is built with, also under the stub driver)
            cfg["batch"], cfg["charges"] = rng.choice([(["oh"], [-1]), (["nh4"], [1]), (["nh4", "h2o"], [1, 0]), (["oh", "hf"], [-1, 0])])
            cfg.pop("extra_pad", None)
            cfg.pop("pad_coords", None)
        if eng in ("exc_basic", "exc_xl", "xl_esmd"):
            # excited-state BOMD / XL-BOMD / XL-ESMD on the stub's synthetic amplitudes and transition densities
            cfg["n_states"] = rng.randint(1, 4)
            cfg["active_state"] = rng.randint(0 if eng != "xl_esmd" else 1, cfg["n_states"])
            cfg["stub"]["gamma"] = rng.choice([0.3, 0.8])
    if eng == "sh_model":
        # surface hopping on the analytic N-state model: cheap enough for thousands of crash/resume runs
        cfg["batch"] = rng.choice([["h2o"], ["h2o", "h2o"], ["nh3", "h2o"], ["h2o", "h2co", "h2o"]])
        cfg["n_states"] = rng.randint(2, 5)
        cfg["model_seed"] = rng.randrange(1 << 20)
        cfg["substeps"] = rng.choice([None, 8])
        cfg["decohere"] = rng.random() < 0.3
        cfg["initial_state"] = [rng.randint(1, cfg["n_states"]) for _ in cfg["batch"]]
        cfg["steps"] = rng.randint(8, 60)
        cfg.pop("extra_pad", None)
        cfg.pop("pad_coords", None)
        if rng.random() < 0.3:
            cfg["damp"] = rng.choice([5.0, 50.0])
    S = cfg["steps"]
    cfg["dt"] = rng.choice([0.1, 0.2, 0.25, 0.5]) if not (real and eng == "sh") else 0.2
    if eng == "sh_model":
        cfg["dt"] = rng.choice([0.1, 0.2])
    cfg["temp"] = rng.choice([50.0, 300.0, 300.0, 600.0]) if eng != "sh_model" else rng.choice([3000.0, 8000.0])
    cfg["seed"] = rng.randrange(1 << 20)
    if eng in ("langevin", "xl_damp"):
        cfg["damp"] = rng.choice([5.0, 20.0, 100.0])
    if eng in ("xl", "xl_damp", "ksa", "exc_xl", "xl_esmd"):
        cfg["k"] = rng.randint(3, 9)
    if eng == "ksa":
        cfg["max_rank"] = rng.randint(1, 3)
    nmol = len(cfg["batch"])
    molid = sorted(rng.sample(range(nmol), rng.randint(1, nmol)))
    cad = lambda: rng.choice([0, 1, 1, 2, 3, 5]) if S < 100 else rng.choice([1, 1, 2])
    h5 = {"data": cad(), "coordinates": cad(), "velocities": cad(), "forces": cad()}
    if eng in ("sh", "sh_model"):
        h5["nonadiabatic"] = rng.choice([0, 1, 2, 3])
    if rng.random() < 0.25:
        h5["write_mo"] = 1
    if eng in ("exc_basic", "exc_xl", "xl_esmd") and rng.random() < 0.3:
        h5["transition_properties"] = 1
    if eng in ("exc_basic", "exc_xl", "xl_esmd"):
        h5["transition_density_matrices"] = rng.choice([0, 1, 2, 3, 4])
    cfg["out"] = {
        "molid": molid,
        "print": rng.choice([0, 0, 1, 3]),
        "ckpt": rng.randint(1, min(7, S)) if S < 100 else rng.choice([30, 50, 70]),
        "xyz": rng.choice([0, 1, 1, 2, 3]),
        "h5": h5,
    }
    cfg["reuse_P"] = True if eng not in ("basic", "langevin", "exc_basic", "sh") else rng.random() < 0.65
    diatomic = any(len(mdsim.POOL[m][0]) <= 2 or m == "hcn" for m in cfg["batch"])
    u = rng.random()
    if u < 0.6 or eng in ("sh", "sh_model"):
        cfg["remove_com"] = None
    elif u < 0.85 or diatomic:
        cfg["remove_com"] = ["linear", rng.randint(1, 4)]
    else:
        cfg["remove_com"] = ["angular", rng.randint(1, 4)]
    if rng.random() < 0.3 and cfg["out"]["xyz"]:
        cfg["xyzbuf"] = rng.choice([64, 200, 700, 3000])
    return cfg


PINNED_XLESMD_TRANSITION_PROPERTIES = {
    "engine": "xl_esmd", "driver": "real", "batch": ["h2co"], "steps": 4, "n_states": 2, "active_state": 1, "scf_eps": 1.0e-8, "dt": 0.2, "temp": 300.0, "k": 3,
    "out": {"molid": [0], "print": 0, "ckpt": 1, "xyz": 0, "h5": {"data": 1, "coordinates": 1, "velocities": 0, "forces": 0, "transition_properties": 1}},
    "reuse_P": True, "remove_com": None,
}  # fmt: skip


def gen_fault_plan(rng, io_seam=True):
    n = rng.choices([1, 2, 3], [0.6, 0.3, 0.1])[0]
    plan = []
    for j in range(n):
        if io_seam:
            kind = rng.choices(["hard@io", "hard@line", "soft@io", "soft@step", "ioerr@ckpt"], [0.45, 0.25, 0.1, 0.1, 0.1])[0]
        else:
            # production HDF5 driver (sec2), real files, no I/O interception: kills at line events and
            # exceptions at step entry only
            kind = rng.choices(["hard@line", "soft@step"], [0.7, 0.3])[0]
        stratum = rng.choices(["ckpt", "h5flush", "xyz", "uniform"], [0.4, 0.1, 0.1, 0.4])[0]
        plan.append(
            {
                "kind": kind,
                "stratum": stratum,
                "u": [rng.random() for _ in range(4)],
                "torn": round(rng.uniform(0.05, 0.95), 3) if rng.random() < 0.3 else None,
                "in_init": (j > 0 and rng.random() < 0.2),
            }
        )
    return plan


# ----------------------------------------------------------------------------------------------


def census_of(workdir, inc=0):
    events, _ = iosim.read_log(os.path.join(workdir, f"events.{inc}.log"))
    per = iosim.per_step_counts(os.path.join(workdir, f"events.{inc}.log"))
    by_step = {}
    for e in events:
        by_step.setdefault(e["step"], []).append(e)
    return events, by_step, per


def hop_steps_of(workdir, inc=0):
    """Steps at which the reference run logged hop events (printed by the engine at the end of run())."""
    import re

    p = os.path.join(workdir, f"stdout.{inc}.txt")
    if not os.path.exists(p):
        return []
    return sorted({int(m.group(1)) for m in re.finditer(r"^\s+step\s+(\d+): S\d+ -> S\d+", open(p, errors="replace").read(), re.M)})


def resolve_faults(plan, cfg, by_step, per, hops=()):
    """Turn the uniform draws of the plan into concrete (step, offset) positions using the census."""
    S = cfg["steps"]
    ck = int(cfg["out"]["ckpt"])
    ck_steps = [s for s in range(1, S + 1) if s % ck == 0] if ck > 0 else []
    faults = []
    lower = 0  # next crash must be after this step (resume point of the previous crash)
    for j, fp in enumerate(plan):
        u = fp["u"]
        kind, clock = fp["kind"].split("@")
        if j == 0:
            lo = ck_steps[0] if (ck_steps and u[3] < 0.9) else 0
        else:
            lo = lower + 1
        if lo > S:
            break
        f = None
        if fp.get("in_init") and j > 0:
            if clock == "line" or kind == "soft":
                f = {"kind": "hard", "clock": "line", "step": 0, "off": 1 + int(u[1] * 400)}
            else:
                f = {"kind": "hard", "clock": "io", "step": 0, "off": 1 + int(u[1] * 8)}
                if fp.get("torn"):
                    f["torn"] = fp["torn"]
            faults.append(f)
            continue  # resume point unchanged
        near_hop = [h + d for h in hops for d in (1, 2) if lo <= h + d <= S]
        if near_hop and u[2] < 0.5 and clock in ("step", "line"):
            # surface hopping: land right after a hop, inside the post-hop hold-off window
            s = near_hop[int(u[0] * len(near_hop))]
            nl = max(1, per.get(s, (0, 200))[1])
            f = {"kind": "soft", "clock": "step", "step": s, "off": 0} if clock == "step" else {"kind": "hard", "clock": "line", "step": s, "off": 1 + int(u[1] * nl)}
        elif clock == "step":
            s = lo + int(u[0] * (S - lo + 1))
            s = max(1, min(S, s))
            f = {"kind": "soft", "clock": "step", "step": s, "off": 0}
        elif clock == "line":
            s = lo + int(u[0] * (S - lo + 1))
            s = min(S, s)
            nl = max(1, per.get(s, (0, 200))[1])
            f = {"kind": "hard", "clock": "line", "step": s, "off": 1 + int(u[1] * nl)}
        elif clock == "ckpt":  # ENOSPC on the checkpoint path
            cands = [s for s in ck_steps if s >= lo]
            if not cands:
                continue
            s = cands[int(u[0] * len(cands))]
            evs = [e for e in by_step.get(s, []) if e["kind"].startswith(("ckpt.", "os.replace.before"))]
            if not evs:
                continue
            e = evs[int(u[1] * len(evs))]
            f = {"kind": "ioerr", "clock": "io", "step": s, "off": e["off"], "only": ["ckpt.", "os.replace.before"]}
        else:  # io clock, hard or soft
            stratum = fp["stratum"]
            s = None
            if stratum == "ckpt":
                cands = [x for x in ck_steps if x >= lo]
                if cands:
                    s = cands[int(u[0] * len(cands))]
                    evs = by_step.get(s, [])
                    idx = [i for i, e in enumerate(evs) if e["kind"].startswith(("ckpt.", "os.replace", "xyz.flush", "xyz.raw"))]
                    h5f = [i for i, e in enumerate(evs) if e["kind"].startswith("h5.")]
                    if idx:
                        # window: from the last h5 flush event before the checkpoint write to the event after os.replace
                        a = max([i for i in h5f if i < idx[0]] + [idx[0] - 1, 0])
                        b = min(len(evs), idx[-1] + 2)
                        off = evs[min(len(evs) - 1, a + int(u[1] * (b - a)))]["off"]
                    else:
                        s = None
            elif stratum == "h5flush":
                cands = [x for x in ck_steps if x >= lo] + ([S] if S >= lo else [])
                if cands:
                    s = cands[int(u[0] * len(cands))]
                    evs = [e for e in by_step.get(s, []) if e["kind"].startswith("h5.")]
                    if evs:
                        off = evs[int(u[1] * len(evs))]["off"]
                    else:
                        s = None
            elif stratum == "xyz":
                cands = [x for x in range(lo, S + 1) if any(e["kind"].startswith("xyz.") for e in by_step.get(x, []))]
                if cands:
                    s = cands[int(u[0] * len(cands))]
                    evs = [e for e in by_step[s] if e["kind"].startswith("xyz.")]
                    off = evs[int(u[1] * len(evs))]["off"]
            if s is None:
                s = min(S, lo + int(u[0] * (S - lo + 1)))
                n = max(1, per.get(s, (len(by_step.get(s, [])), 0))[0])
                off = 1 + int(u[1] * (n + 1))
            f = {"kind": kind, "clock": "io", "step": s, "off": off}
            if kind == "hard" and fp.get("torn"):
                f["torn"] = fp["torn"]
            if kind == "soft":
                # an exception can only unwind through run() from a Python-level call boundary, not from
                # inside a C-library write callback (HDF5 VFD, torch's zip writer)
                f["only"] = SOFT_SITES
        faults.append(f)
        # resume point after this crash: last checkpoint strictly before the crash step (the checkpoint
        # of the crash step itself may or may not be durable; either way the next position is valid)
        prev = [x for x in ck_steps if x < f["step"]]
        lower = prev[-1] if prev else 0
    return faults


def _child_check_ckpt(path):
    import torch

    ck = torch.load(path, map_location="cpu", weights_only=False)
    need = ["step_done", "steps", "reuse_P", "timestep", "Temp", "seqm_parameters", "remove_com", "output", "rng", "molecules"]
    missing = [k for k in need if k not in ck]
    mol = ck.get("molecules", {})
    for k in ("species", "coordinates", "velocities", "forces"):
        if not torch.is_tensor(mol.get(k)):
            missing.append(f"molecules.{k}")
    if "MD_type" not in ck and "NAD_type" not in ck:
        missing.append("MD_type|NAD_type")
    finite = all(bool(torch.isfinite(mol[k]).all()) for k in ("coordinates", "velocities", "forces") if torch.is_tensor(mol.get(k)))
    return {"missing": missing, "step_done": int(ck.get("step_done", -1)), "steps": int(ck.get("steps", -1)), "finite": finite}


def execute(record):
    cfg = record["cfg"]
    tag = f"c10-{record.get('i', 0)}-{core.digest(record)}"
    root = core.make_scratch(tag)
    try:
        return _execute(record, cfg, root)
    finally:
        shutil.rmtree(root, ignore_errors=True)


def _execute(record, cfg, root):
    failures, stats = [], {"faults_fired": {}, "probes": {}, "vacuous": 0, "incarnations": 0}
    refdir = os.path.join(root, "ref")
    os.makedirs(refdir)
    opts = {"io_seam": bool(record.get("io_seam", True)), "line_clock": True}
    if not opts["io_seam"]:
        stats["probes"]["production_hdf5_driver_runs"] = 1
    earlier = cfg.get("earlier_run")

    def run_earlier(workdir):
        # an EARLIER, completed run that used the same output prefix (a user re-running a job in the same directory): it
        # leaves its own {prefix}.restart.pt behind
        ecfg = {k: v for k, v in cfg.items() if k not in ("earlier_run", "pre_run")}
        ecfg.update(steps=int(earlier["steps"]), seed=int(cfg.get("seed") or 0) + 17)
        r0 = mdsim.run_incarnation(ecfg, workdir, 90, None, "fresh", opts)
        if r0["status"] != 0:
            raise core.HarnessError(f"earlier run with the same prefix failed: {r0.get('exc')}")

    if earlier:
        run_earlier(refdir)
        stats["probes"]["prefix_used_by_an_earlier_run"] = 1
    ref = mdsim.run_incarnation(cfg, refdir, 0, None, "fresh", opts)
    if ref["status"] != 0:
        raise core.HarnessError(f"fault-free reference run failed: {ref.get('exc')} cfg={json.dumps(cfg)}")
    events, by_step, per = census_of(refdir)
    ref_data, ref_problems = mdsim.dump_files(refdir, cfg)
    if ref_problems:
        raise core.HarnessError(f"reference files unreadable: {ref_problems}")
    exp = mdsim.expected_streams(cfg)
    # sanity of the reference against the stream model (the cadence property itself is C11's job)
    stats["sim_time_fs"] = cfg["steps"] * cfg["dt"]
    stats["sim_events"] = len(events)
    stats["sim_lines"] = ref["report"]["lines"]
    cnt = ref["report"]["counts"]
    if cnt.get("xyz.raw", 0) > cnt.get("xyz.flush", 0) + cnt.get("xyz.close", 0):
        stats["probes"]["xyz_buffer_spill"] = 1
    if cfg["steps"] >= 100:
        stats["probes"]["flush_every_100_rows"] = 1

    faults = record.get("faults")
    if faults is None:
        hops = hop_steps_of(refdir) if cfg["engine"] in ("sh", "sh_model") else ()
        if hops:
            stats["probes"]["sh_runs_with_hops"] = 1
        faults = resolve_faults(record["fault_plan"], cfg, by_step, per, hops)
    resolved = dict(record)
    resolved.pop("fault_plan", None)
    resolved["faults"] = faults

    run = os.path.join(root, "run")
    os.makedirs(run)
    if earlier:
        run_earlier(run)
    ck_path = os.path.join(run, "t.restart.pt")
    history, torn_files, crash_sigs = [], set(), []
    inc, mode, done, durable_any = 0, "fresh", False, False
    queue = list(faults)
    while not done:
        f = queue.pop(0) if queue else None
        r = mdsim.run_incarnation(cfg, run, inc, f, mode, opts)
        stats["incarnations"] += 1
        _, kill = iosim.read_log(os.path.join(run, f"events.{inc}.log"))
        fired = kill if isinstance(kill, dict) else (r.get("report", {}) or {}).get("fired")
        history.append({"inc": inc, "mode": mode, "fault": f, "status": r["status"], "fired": fired, "exc": (r.get("exc") or {}).get("type")})
        crashed = False
        if r["status"] == 137:
            crashed = True
        elif r["status"] == 3:
            et = (r.get("exc") or {}).get("type")
            # an injected exception may be re-wrapped by the library it passes through (torch turns the
            # ENOSPC of its write callback into RuntimeError): the incarnation died of the fault that fired
            injected = et == "InjectedCrash" or (fired is not None and fired.get("kind") in ("soft", "ioerr"))
            if injected:
                crashed = True
            else:
                cls = _classify(torn_files, "resume-failed", r.get("exc"), None, cfg=cfg, mode=mode)
                failures.append(
                    core.fail(
                        "incarnation-failed",
                        f"incarnation {inc} ({mode}) raised {et}: {(r['exc'].get('msg') or '')[:200]}",
                        history=history,
                        tb=(r["exc"].get("tb") or "")[-1500:],
                        classify=cls,
                    )
                )
                break
        if crashed:
            key = f"{(fired or {}).get('kind', f['kind'])}@{(fired or {}).get('clock', f['clock'])}"
            if (fired or {}).get("clock") == "io" and f.get("torn") and f["kind"] == "hard":
                key += "+torn"
            stats["faults_fired"][key] = stats["faults_fired"].get(key, 0) + 1
            if fired and fired.get("in_flush") and f["kind"] == "hard" and (fired.get("flush_pos", 0) >= 1 or f.get("torn")):
                torn_files.add(fired["in_flush"][0])
            if fired and fired.get("in_flush"):
                stats["probes"]["kill_inside_h5_flush"] = stats["probes"].get("kill_inside_h5_flush", 0) + 1
            if mode == "resume" and fired and fired.get("step") == 0:
                stats["probes"]["crash_in_resume_init"] = stats["probes"].get("crash_in_resume_init", 0) + 1
            if not os.path.exists(ck_path):
                # nothing durable yet: check that the census agrees, then stop (vacuous for the resume oracle)
                stats["vacuous"] = 1
                history[-1]["vacuous"] = True
                break
            st, payload = core.run_in_child(_child_check_ckpt, (ck_path,), timeout=120)
            if st != 0 or not payload or "ok" not in payload:
                failures.append(
                    core.fail(
                        "checkpoint-unloadable",
                        f"after crash {history[-1]} the checkpoint on disk does not load: {payload}",
                        history=history,
                        classify={"site": "checkpoint"},
                    )
                )
                break
            info = payload["ok"]
            ck = int(cfg["out"]["ckpt"])
            crash_step = (fired or {}).get("step", f["step"])
            if info["missing"] or not info["finite"] or info["steps"] != cfg["steps"] or info["step_done"] % ck != 0 or info["step_done"] < 1:
                failures.append(core.fail("checkpoint-incomplete", f"checkpoint content wrong: {info}", history=history, classify={"site": "checkpoint"}))
                break
            if mode == "fresh" or crash_step > 0:
                lo = ((max(crash_step, 1) - 1) // ck) * ck  # last checkpoint that must be durable
                if not (lo <= info["step_done"] <= max(crash_step, lo)):
                    failures.append(
                        core.fail(
                            "checkpoint-stale",
                            f"crash in step {crash_step}: checkpoint has step_done={info['step_done']}, expected in [{lo},{crash_step}]",
                            history=history,
                            classify={"site": "checkpoint"},
                        )
                    )
                    break
            durable_any = True
            phase = None
            if "k" in cfg:
                phase = info["step_done"] % (cfg["k"] + 1)
            crash_sigs.append(
                (
                    cfg["engine"],
                    key,
                    _site(fired),
                    min(crash_step - info["step_done"], 9) if crash_step else -1,
                    phase,
                    len(crash_sigs),
                )
            )
            inc += 1
            mode = "resume"
            if inc > len(faults) + 2:
                raise core.HarnessError("incarnation loop did not terminate")
            continue
        # normal completion
        if isinstance(r["status"], int) and r["status"] < 0:
            # the process died by a signal nobody injected (observed: SIGSEGV inside the HDF5 library when
            # a resumed run re-opens a file whose metadata flush was torn)
            failures.append(
                core.fail(
                    "incarnation-died",
                    f"incarnation {inc} ({mode}) was killed by signal {-r['status']} (not injected)",
                    history=history,
                    classify={"site": "h5-torn-flush"} if (torn_files and mode == "resume") else {"site": "other"},
                )
            )
            break
        if r["status"] != 0:
            raise core.HarnessError(f"unexpected child status {r['status']}: {r}")
        done = True

    nontrivial = durable_any and not stats["vacuous"]
    if done and not failures:
        got, problems = mdsim.dump_files(run, cfg)
        if problems:
            failures.append(
                core.fail(
                    "final-files-unreadable",
                    f"after {len(history)} incarnation(s) the output cannot be read back: {problems[:3]}",
                    history=history,
                    classify=_classify(torn_files, "unreadable", None, [p["file"] for p in problems]),
                )
            )
        bad = mdsim.compare(ref_data, got)
        if bad and any(h["status"] != 0 or h["mode"] == "resume" for h in history):
            files = sorted({f"t.{k.split(':')[0]}.{'h5' if ':h5' in k else 'xyz'}" for k, _ in bad})
            failures.append(
                core.fail(
                    "final-files-differ",
                    f"crashed-and-resumed output differs from the uninterrupted run: {bad[:4]}",
                    history=history,
                    n_diff=len(bad),
                    classify=_classify(torn_files, "differ", None, files),
                )
            )
        elif bad:
            raise core.HarnessError(f"two fault-free executions of the same configuration differ: {bad[:3]}")
        for m in cfg["out"]["molid"]:
            lab = got.get(f"{m}:xyz:labels")
            if lab is not None and lab != exp["xyz"] and not bad:
                failures.append(core.fail("xyz-labels", f"XYZ frames {lab} != due {exp['xyz']}", history=history, classify={"site": "xyz"}))
        fd = mdsim.files_digest(got)
    else:
        fd = None
    dig = core.digest({"hist": [(h["inc"], h["mode"], h["status"], json.dumps(h["fired"], sort_keys=True)) for h in history], "files": fd, "ref": mdsim.files_digest(ref_data), "reflog": mdsim.log_digest(refdir, 0)})
    sample = {"cfg": cfg, "faults": faults, "history": [{k: h[k] for k in ("inc", "mode", "status", "fired")} for h in history]}
    return core.Result.make(resolved, failures, stats, sig=[list(s) for s in crash_sigs], nontrivial=nontrivial, sample=sample, digest_=dig)


def _site(fired):
    if not fired:
        return "?"
    at = fired.get("at", "?")
    if fired.get("clock") == "line":
        return at
    s = at
    if fired.get("in_flush"):
        s += f"/in-{fired['in_flush'][1]}"
    return s


def _classify(torn_files, what, exc, files, cfg=None, mode=None):
    """Site/history classification used to match the committed known-findings predicates."""
    if (
        cfg is not None
        and what == "resume-failed"
        and mode == "resume"
        and cfg["engine"] == "xl_esmd"
        and cfg["driver"] == "real"
        and int(cfg["out"]["h5"].get("transition_properties", 0))
        and int(cfg["out"]["h5"].get("data", 0)) > 0
        and exc
        and exc.get("type") == "TypeError"
        and "transition_dipole" in (exc.get("tb") or "")
    ):
        # production XL-ESMD never recomputes transition dipoles / oscillator strengths after its initial evaluation
        return {"site": "xlesmd-transition-properties"}
    if torn_files:
        if what == "resume-failed" and exc and "h5py" in ((exc.get("tb") or "") + (exc.get("msg") or "")):
            return {"site": "h5-torn-flush"}
        if what in ("unreadable", "differ") and files and all(f in torn_files for f in files):
            return {"site": "h5-torn-flush"}
    return {"site": "other"}


# ----------------------------------------------------------------------------------------------


class C10(core.Check):
    prop = PROP
    level = "fault_enumeration"
    module = "dst.c10"
    budget = {"quick": 170, "thorough": 1700}
    runs = {"quick": 420, "thorough": 6000}
    real_frac = {"quick": 0.04, "thorough": 0.06}
    assumptions = [
        "crash model = process death (SIGKILL semantics: user-space buffers lost, kernel page cache kept); power loss is outside the statement",
        "HDF5 runs on h5py's file-object driver so that each low-level write is a simulator event; the production sec2 driver issues the same write sequence from the same library core but is not the one exercised at I/O granularity (line-clock kills and soft crashes exercise it unmodified in the no-I/O-seam stratum)",
        "stub electronic structure for most runs (analytic pair potential, synthetic density); real SEQM for the stated fraction",
        "single compute thread",
    ]

    def plan(self, tier, seed):
        recs = []
        for i in range(self.runs[tier]):
            rng = core.rng_for(seed, PROP, i)
            cfg = gen_cfg(rng, real_frac=self.real_frac[tier])
            if i in (1, 2, 3):
                # three real surface-hopping runs in every batch (real CIS electronic structure, orbital phase
                # tracking across the resume): the stratum that needs molecular_orbitals in the checkpoint
                cfg = gen_cfg(rng, real_frac=1.0, engines=["sh"])
                cfg["steps"] = 5
                cfg["out"]["ckpt"] = 2
                cfg["out"]["h5"].update(data=1, coordinates=1, nonadiabatic=1)
                if i == 3:
                    cfg["reuse_P"] = False  # amplitudes are not carried by the molecule nor checkpointed: item 44
                    cfg.pop("nonadiabatic", None)  # defaults: crossing detection on, which needs the previous step's amplitudes
            io_seam = rng.random() >= 0.15
            plan = gen_fault_plan(rng, io_seam)
            if i >= 5 and cfg["driver"] == "stub" and int(cfg["out"]["ckpt"]) >= 2 and rng.random() < 0.04:
                # the output prefix was used by an earlier, completed run; this run dies BEFORE its own first checkpoint: a
                # checkpoint found on disk must never be taken for this run's
                cfg["earlier_run"] = {"steps": 2 * int(cfg["out"]["ckpt"])}
                plan = [{"kind": "soft@step", "stratum": "uniform", "u": [0.0, 0.0, 0.9, 0.95], "torn": None, "in_init": False}]
            if i == 3:
                # (the crash lands after the second checkpoint, so that there is something to resume from)
                plan = [{"kind": "soft@step", "stratum": "uniform", "u": [0.9, 0.0, 0.9, 0.0], "torn": None, "in_init": False}]
            if i == 4:
                # pinned known finding: production XL-ESMD with transition properties requested, interrupted and resumed
                cfg = dict(PINNED_XLESMD_TRANSITION_PROPERTIES, seed=cfg["seed"], rotate=rng.randrange(1 << 30))
                io_seam = True
                plan = [{"kind": "soft@step", "stratum": "uniform", "u": [0.9, 0.0, 0.9, 0.0], "torn": None, "in_init": False}]
            recs.append({"i": i, "cfg": cfg, "io_seam": io_seam, "fault_plan": plan})
        return recs

    def shrink_candidates(self, rec):
        cfg, faults = rec["cfg"], rec["faults"]
        out = []

        def variant(**kw):
            c = json.loads(json.dumps(cfg))
            fs = json.loads(json.dumps(faults))
            for k, v in kw.items():
                if k == "faults":
                    fs = v
                elif k.startswith("out."):
                    c["out"][k[4:]] = v
                elif k.startswith("h5."):
                    c["out"]["h5"][k[3:]] = v
                elif v is None and k in c:
                    c.pop(k)
                else:
                    c[k] = v
            return {"i": rec.get("i", 0), "cfg": c, "faults": fs, "io_seam": rec.get("io_seam", True)}

        for j in range(len(faults)):
            if len(faults) > 1:
                out.append(variant(faults=faults[:j] + faults[j + 1 :]))
        for j, f in enumerate(faults):
            if f.get("torn"):
                g = dict(f)
                g.pop("torn")
                out.append(variant(faults=faults[:j] + [g] + faults[j + 1 :]))
        if len(cfg["batch"]) > 1:
            out.append(variant(batch=cfg["batch"][:1], **{"out.molid": [0]}))
        if len(cfg["out"]["molid"]) > 1:
            out.append(variant(**{"out.molid": cfg["out"]["molid"][:1]}))
        last = max(f["step"] for f in faults) if faults else 0
        ck = cfg["out"]["ckpt"]
        if cfg["steps"] > last + 1:
            out.append(variant(steps=max(last + 1, ck + 1, 2)))
        for k in ("xyzbuf", "extra_pad", "pad_coords", "remove_com"):
            if cfg.get(k):
                out.append(variant(**{k: None}))
        if cfg["out"].get("print"):
            out.append(variant(**{"out.print": 0}))
        if cfg["out"].get("xyz", 0) > 1:
            out.append(variant(**{"out.xyz": 1}))
        for k, v in cfg["out"]["h5"].items():
            if v > 1:
                out.append(variant(**{f"h5.{k}": 1}))
        for k, v in cfg["out"]["h5"].items():
            if v > 0:
                out.append(variant(**{f"h5.{k}": 0}))
        if cfg["out"].get("xyz", 0) > 0:
            out.append(variant(**{"out.xyz": 0}))
        if cfg["driver"] == "real" and cfg["engine"] in mdsim.STUB_OK:
            out.append(variant(driver="stub", rotate=None))
        if cfg["engine"] in ("langevin", "xl", "xl_damp", "ksa") and cfg["driver"] == "stub":
            out.append(variant(engine="basic"))
        return out

    def coverage(self, results, tier):
        sigs, stats, samples = set(), {}, []
        nontrivial = 0
        engines = {}
        real = 0
        for r in results:
            core.merge_counts(stats, r["stats"])
            for s in r["sig"] or []:
                sigs.add(json.dumps(s))
            nontrivial += 1 if r["nontrivial"] else 0
            e = r["record"]["cfg"]["engine"] + "/" + r["record"]["cfg"]["driver"]
            engines[e] = engines.get(e, 0) + 1
        faulted = [r for r in results if r["nontrivial"]]
        for r in (faulted[:2] + [r for r in results if not r["nontrivial"]][:1])[:3]:
            samples.append(r["sample"])
        sites = {json.loads(s)[2] for s in sigs}
        return {
            "evaluations": len(results),
            "distinct_nontrivial": len(sigs),
            "rule": "one evaluation = one seeded MD configuration run fault-free (reference) and again under 1-3 injected crashes with resume after each; "
            "non-trivial = at least one crash landed after a durable checkpoint and the run was resumed; distinct = distinct tuples "
            "(engine, fault kind@clock, crash site [I/O event kind or file:line:function], steps since last checkpoint, XL buffer phase of the resume point, crash ordinal)",
            "samples": samples,
            "runs_nontrivial": nontrivial,
            "vacuous_runs": stats.get("vacuous", 0),
            "incarnations": stats.get("incarnations", 0),
            "faults_fired": stats.get("faults_fired", {}),
            "probes": stats.get("probes", {}),
            "distinct_crash_sites": len(sites),
            "simulated_time_fs": stats.get("sim_time_fs", 0),
            "sim_clock_events": {"io": stats.get("sim_events", 0), "lines": stats.get("sim_lines", 0)},
            "engines": engines,
            "components": {
                "real": ["Molecular_Dynamics_Basic/Langevin, XL_BOMD, KSA_XL_BOMD, SurfaceHoppingDynamics run loops", "HDF5Writer, XYZWriter, checkpoint build/save/load, run_from_checkpoint", "h5py + HDF5 library", "torch.save/torch.load", "kernel file semantics on tmpfs", "Electronic_Structure (real-driver stratum)"],
                "stub": ["electronic structure (stub stratum): analytic pair potential + synthetic density", "HDF5 low-level VFD: Python file object instead of sec2", "temp-file naming"],
            },
        }


def main(argv=None):
    return core.main(C10(), argv)
