"""Self-tests of the machinery.

determinism: every check's first N runs are executed twice in fresh interpreters (PYTHONHASHSEED 0
vs 4242, 16 workers vs 3 workers); the per-run digests (event logs, fault firings, file contents,
oracle inputs) must be identical.

sensitivity: every registered mutant (reverted fix or seeded change under /verif/seeded) is applied
to a scratch copy of /repo; the named check must report a VIOLATION there within its quick budget.
"""
import json
import os
import shutil
import subprocess
import sys
import tempfile
import time

from . import core

CHECKS = ["C10", "C11", "C13", "C15", "C12", "C08", "C09", "C20", "C17", "C03", "C04", "C16"]


def _run(check, runs, hashseed, workers, out):
    env = dict(os.environ, PYTHONHASHSEED=str(hashseed), VERIF_WORKERS=str(workers))
    p = subprocess.run(
        [sys.executable, "-m", "dst", check, "--tier", "quick", "--runs", str(runs), "--no-shrink", "--dump", out],
        env=env,
        cwd=core.VERIF,
        capture_output=True,
        text=True,
    )
    return p.returncode, p.stdout[-2000:] + p.stderr[-2000:]


def determinism(checks, runs):
    bad = 0
    tmp = tempfile.mkdtemp(prefix="dst-selftest-")
    ev_backup = os.path.join(tmp, "evidence")
    if os.path.isdir(core.EVIDENCE_DIR):
        shutil.copytree(core.EVIDENCE_DIR, ev_backup)
    try:
        for c in checks:
            modfile = os.path.join(core.VERIF, "dst", c.lower() + ".py")
            if not os.path.exists(modfile):
                continue
            t0 = time.time()
            a, b = os.path.join(tmp, f"{c}.a.json"), os.path.join(tmp, f"{c}.b.json")
            ra, oa = _run(c, runs, 0, 16, a)
            rb, ob = _run(c, runs, 4242, 3, b)
            if not (os.path.exists(a) and os.path.exists(b)):
                print(f"[selftest] {c}: run failed\n{oa}\n{ob}")
                bad += 1
                continue
            da, db = json.load(open(a)), json.load(open(b))
            mism = []
            for i, (x, y) in enumerate(zip(da, db)):
                if x.get("digest") != y.get("digest") or [f["oracle"] for f in x.get("failures", [])] != [f["oracle"] for f in y.get("failures", [])]:
                    mism.append((i, x.get("digest"), y.get("digest")))
            nd = sum(1 for x in da if x.get("digest"))
            print(f"[selftest] determinism {c}: {len(da)} runs x 2 interpreters (hashseed 0/4242, workers 16/3), {nd} digests, mismatches={len(mism)} exit={ra}/{rb} {time.time() - t0:.0f}s", flush=True)
            if mism or len(da) != len(db) or ra != rb:
                print("   first mismatches:", mism[:5])
                bad += 1
    finally:
        if os.path.isdir(ev_backup):
            shutil.rmtree(core.EVIDENCE_DIR, ignore_errors=True)
            shutil.copytree(ev_backup, core.EVIDENCE_DIR)
        shutil.rmtree(tmp, ignore_errors=True)
    return bad


def sensitivity(only=None):
    reg = json.load(open(os.path.join(core.VERIF, "mutants.json")))
    bad = 0
    tmp = tempfile.mkdtemp(prefix="dst-selftest-")
    ev_backup = os.path.join(tmp, "evidence")
    if os.path.isdir(core.EVIDENCE_DIR):
        shutil.copytree(core.EVIDENCE_DIR, ev_backup)
    try:
        for m in reg["mutants"]:
            if only and m["id"] not in only and m["check"] not in only:
                continue
            ops = ["--mutant", m["id"]]
            t0 = time.time()
            p = subprocess.run(
                [sys.executable, os.path.join(core.VERIF, "tools_mutant.py")] + ops + ["--", m["check"], "--tier", "quick", "--no-shrink"] + m.get("args", []),
                capture_output=True,
                text=True,
                cwd=core.VERIF,
            )
            caught = p.returncode == 1 and "VIOLATION property=" + m["check"] in p.stdout
            oracles = sorted({ln.split("oracle=")[1].split(":")[0] for ln in p.stdout.splitlines() if "oracle=" in ln})
            print(f"[selftest] sensitivity {m['id']} ({m['check']}): {'CAUGHT' if caught else 'MISSED'} exit={p.returncode} oracles={oracles} {time.time() - t0:.0f}s", flush=True)
            if not caught:
                bad += 1
                print(p.stdout[-1500:], p.stderr[-1500:])
    finally:
        if os.path.isdir(ev_backup):
            shutil.rmtree(core.EVIDENCE_DIR, ignore_errors=True)
            shutil.copytree(ev_backup, core.EVIDENCE_DIR)
        shutil.rmtree(tmp, ignore_errors=True)
        shutil.rmtree(core.REPLAY_DIR, ignore_errors=True)
    return bad


def main(argv=None):
    argv = list(argv or [])
    what = argv[0] if argv else "determinism"
    if what == "determinism":
        runs = int(argv[1]) if len(argv) > 1 else 120
        checks = argv[2:] or CHECKS
        bad = determinism(checks, runs)
    elif what == "sensitivity":
        bad = sensitivity(argv[1:] or None)
    else:
        print("usage: python -m dst selftest determinism [runs] [checks...] | sensitivity [ids...]")
        return 2
    print(f"[selftest] {what}: {'OK' if not bad else f'{bad} FAILED'}")
    return 0 if not bad else 1
