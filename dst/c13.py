"""C13 - initial conditions, centre-of-mass handling and seeding.

A history of RNG consumption precedes the run (torch, NumPy, Python generators); the simulator owns
the seed and wraps _zero_com / the integrator step to observe momenta, kinetic energy and padding
atoms at every application.  Oracles: same seed => bit-identical files whatever was drawn before;
different seed => different velocities; step-0 temperature exact under the engine's degrees of
freedom, zero net linear/angular momentum; after every COM removal P=0 (L=0 when angular) with
kinetic energy restored; padding atoms never move; user-supplied velocities are the step-0 row.
"""
import json
import os
import shutil

import numpy as np

from . import core, mdsim
from .c10 import STUB_BATCHES

PROP = "C13"
KB_EV = 8.617333262e-5  # CODATA 2018
KE_SCALE = 1.66053906660e-27 * 1.0e10 / 1.602176634e-19  # amu (A/fs)^2 -> eV

_rec = {}


def hook(cfg, tshim, mode):
    """Installed in the child: class-level wrappers that record what the engine does."""
    import torch

    import seqm.MolecularDynamics as MDm

    rec = {"zero_com": [], "pad": [], "init_vel": None, "mass": None, "n_dof": None, "coords0": None, "first_step_vel": None}
    base = MDm.Molecular_Dynamics_Basic
    orig_zero = base._zero_com

    def momenta(molecule):
        ms = molecule.mass
        v = molecule.velocities
        P = (ms * v).sum(1)
        M = ms.sum(1, keepdim=True)
        rc = (ms * molecule.coordinates.detach()).sum(1, keepdim=True) / M
        rr = molecule.coordinates.detach() - rc
        L = (ms * torch.linalg.cross(rr, v, dim=2)).sum(1)
        sp = (ms * v.norm(dim=2, keepdim=True)).sum((1, 2))
        sl = (ms * v.norm(dim=2, keepdim=True) * rr.norm(dim=2, keepdim=True)).sum((1, 2))
        return P, L, sp, sl

    def zero_com(self, molecule, remove_angular=True, translate_to_origin=False, restore_kinetic_energy=True):
        ke0 = self._kinetic_energy(molecule).clone()
        orig_zero(self, molecule, remove_angular=remove_angular, translate_to_origin=translate_to_origin, restore_kinetic_energy=restore_kinetic_energy)
        ke1 = self._kinetic_energy(molecule)
        P, L, sp, sl = momenta(molecule)
        pad = molecule.species == 0
        rec["zero_com"].append(
            {
                "angular": bool(remove_angular),
                "restore": bool(restore_kinetic_energy),
                "initial": bool(translate_to_origin),
                "P_rel": float((P.norm(dim=1) / sp.clamp(min=1e-300)).max()),
                "L_rel": float((L.norm(dim=1) / sl.clamp(min=1e-300)).max()),
                "dKE_rel": float(((ke1 - ke0).abs() / ke0.clamp(min=1e-300)).max()),
                "pad_v": float(molecule.velocities[pad].abs().max()) if pad.any() else 0.0,
            }
        )

    base._zero_com = zero_com
    orig_init = base.initialize_velocity

    def initialize_velocity(self, molecule, *a, **kw):
        out = orig_init(self, molecule, *a, **kw)
        rec["init_vel"] = molecule.velocities.detach().clone().tolist()
        rec["mass"] = molecule.mass.squeeze(-1).tolist()
        rec["n_dof"] = self.n_dof.tolist() if torch.is_tensor(self.n_dof) else self.n_dof
        rec["coords0"] = molecule.coordinates.detach().clone()
        return out

    base.initialize_velocity = initialize_velocity
    import seqm.NonadiabaticDynamics as NDm

    for cls in (MDm.Molecular_Dynamics_Basic, MDm.XL_BOMD, NDm.NonadiabaticDynamicsBase):
        orig_step = cls.__dict__["_do_integrator_step"]

        def make(orig_step):
            def step(self, i, molecule, *a, **kw):
                if rec["first_step_vel"] is None:
                    # the velocities the first integrator step starts from
                    rec["first_step_vel"] = molecule.velocities.detach().clone().tolist()
                if rec["mass"] is None:
                    # (an engine that does not go through initialize_velocity, e.g. for user-supplied velocities)
                    rec["mass"] = molecule.mass.squeeze(-1).tolist()
                    rec["n_dof"] = self.n_dof.tolist() if torch.is_tensor(self.n_dof) else self.n_dof
                    rec["coords0"] = molecule.coordinates.detach().clone()
                r = orig_step(self, i, molecule, *a, **kw)
                pad = molecule.species == 0
                if pad.any() and rec["coords0"] is not None:
                    dv = float(molecule.velocities[pad].abs().max())
                    dx = float((molecule.coordinates.detach()[pad] - rec["coords0"][pad]).abs().max())
                    rec["pad"].append([i + 1, dv, dx])
                return r

            return step

        setattr(cls, "_do_integrator_step", make(orig_step))

    def report():
        out = dict(rec)
        out.pop("coords0", None)
        return out

    return {"report": report}


def gen(rng, pinned_sh=None):
    eng = rng.choice(["basic", "basic", "langevin", "xl", "ksa", "xl_damp", "sh_model", "exc_basic", "exc_xl", "xl_esmd"])
    real = rng.random() < 0.03 and eng not in ("sh_model", "exc_basic", "exc_xl", "xl_esmd")
    if pinned_sh is not None:
        eng, real = "sh", True
    cfg = {"engine": eng, "driver": "real" if real else "stub"}
    if eng == "sh":
        # the production surface-hopping engine (real electronic structure, finite-difference couplings)
        cfg["batch"] = [["h2co"], ["h2co", "h2co"], ["h2co"]][pinned_sh % 3]
        cfg["n_states"] = 2
        cfg["rotate"] = rng.randrange(1 << 30)
        cfg["steps"] = 2
        cfg["scf_eps"] = 1e-8
    elif real:
        cfg["batch"] = rng.choice([["h2o"], ["h2o", "hf"], ["nh3"]])
        cfg["rotate"] = rng.randrange(1 << 30)
        cfg["steps"] = rng.randint(2, 5)
        cfg["scf_eps"] = 1e-8
    else:
        cfg["batch"] = rng.choice(STUB_BATCHES + [["hcn"], ["hcn", "h2o"], ["ch4", "hf"]])
        cfg["steps"] = rng.randint(2, 14)
        cfg["stub"] = {"pot": rng.choice(["harm", "morse"]), "gamma": 0.3}
        if rng.random() < 0.3:
            cfg["extra_pad"] = rng.randint(1, 2)
            cfg["pad_coords"] = True
    if eng == "sh_model":
        cfg["batch"] = rng.choice([["h2o"], ["h2o", "h2o"], ["nh3", "h2o"]])
        cfg["n_states"] = rng.randint(2, 4)
        cfg["model_seed"] = rng.randrange(1 << 20)
        cfg["substeps"] = rng.choice([None, 8])
        cfg["initial_state"] = [rng.randint(1, cfg["n_states"]) for _ in cfg["batch"]]
        cfg.pop("extra_pad", None)
        cfg.pop("pad_coords", None)
    if eng in ("exc_basic", "exc_xl", "xl_esmd"):
        cfg["n_states"] = rng.randint(1, 3)
        cfg["active_state"] = rng.randint(0 if eng != "xl_esmd" else 1, cfg["n_states"])
    cfg["dt"] = rng.choice([0.25, 0.5]) if eng not in ("sh", "sh_model") else 0.2
    cfg["temp"] = rng.choice([0.0, 10.0, 300.0, 300.0, 1000.0])
    if pinned_sh is not None:
        cfg["temp"] = [300.0, 300.0, 0.0][pinned_sh % 3]
    cfg["seed"] = rng.randrange(1 << 20)
    if eng in ("langevin", "xl_damp"):
        cfg["damp"] = rng.choice([5.0, 50.0])
    if eng in ("xl", "xl_damp", "ksa", "exc_xl", "xl_esmd"):
        cfg["k"] = rng.randint(3, 9)
    nmol = len(cfg["batch"])
    cfg["out"] = {"molid": list(range(nmol)), "print": 0, "ckpt": 0, "xyz": 0, "h5": {"data": 1, "coordinates": 1, "velocities": 1, "forces": 0}}
    cfg["reuse_P"] = True
    small = any(len(mdsim.POOL[m][0]) <= 2 or m == "hcn" for m in cfg["batch"])
    u = rng.random()
    user = rng.random() < 0.3 or pinned_sh == 1
    if user:
        cfg["user_vel"] = {"seed": rng.randrange(1 << 20), "scale": rng.choice([0.005, 0.02])}
    moving = cfg["temp"] > 0 or user
    if u < 0.4 or not moving or eng == "sh":
        cfg["remove_com"] = None
    elif u < 0.7 or small:
        cfg["remove_com"] = ["linear", rng.randint(1, 3)]
    else:
        cfg["remove_com"] = ["angular", rng.randint(1, 3)]
    return cfg


def execute(record):
    root = core.make_scratch(f"c13-{record.get('i', 0)}-{core.digest(record)}")
    try:
        return _execute(record, root)
    finally:
        shutil.rmtree(root, ignore_errors=True)


def _one(cfg, root, name):
    d = os.path.join(root, name)
    os.makedirs(d)
    r = mdsim.run_incarnation(cfg, d, 0, None, "fresh", {"io_seam": False, "child_hook": "dst.c13:hook"})
    return d, r


def _execute(record, root):
    tol = core.tolerances()["C13"]
    cfg = record["cfg"]
    failures, stats = [], {"probes": {}, "zero_com_calls": 0, "max": {}}
    mx = stats["max"]

    def worst(name, val):
        mx[name] = max(mx.get(name, 0.0), float(val))

    dA, rA = _one(cfg, root, "A")
    if rA["status"] != 0:
        failures.append(core.fail("run-failed", f"valid configuration raised: {(rA.get('exc') or {}).get('type')}: {(rA.get('exc') or {}).get('msg', '')[:300]}", cfg=cfg))
        return core.Result.make(record, failures, stats, sig=None, nontrivial=False)
    A, pa = mdsim.dump_files(dA, cfg)
    rep = rA["report"]["hook"]
    nmol = len(cfg["batch"])
    sp, _ = mdsim.build_batch(cfg)

    # (1) prior RNG consumption must not matter
    k = record["rng_prefix"]
    cB = dict(cfg, rng_prefix=k, rng_prefix_seed=record["prefix_seed"])
    dB, rB = _one(cB, root, "B")
    if rB["status"] != 0:
        failures.append(core.fail("run-failed", f"same configuration after {k} prior draws raised {(rB.get('exc') or {})}", cfg=cfg))
    else:
        B, _ = mdsim.dump_files(dB, cfg)
        bad = mdsim.compare(A, B)
        if cfg.get("seed") is not None and bad:
            failures.append(core.fail("seed-not-reproducible", f"seed={cfg['seed']}: trajectory depends on {k} random numbers consumed before the run: {bad[:3]}"))
    # (2) a different seed gives different velocities (only when something is drawn)
    draws = (cfg["temp"] > 0 and cfg.get("user_vel") is None) or cfg["engine"] in ("langevin", "xl_damp") and cfg["temp"] > 0
    if draws:
        cC = dict(cfg, seed=cfg["seed"] + 1)
        dC, rC = _one(cC, root, "C")
        if rC["status"] == 0:
            C, _ = mdsim.dump_files(dC, cfg)
            same = all(np.array_equal(A[f"{m}:h5:velocities/values"][-1], C[f"{m}:h5:velocities/values"][-1]) for m in range(nmol))
            if same:
                failures.append(core.fail("seed-ignored", f"seeds {cfg['seed']} and {cfg['seed'] + 1} give identical velocities"))
            stats["probes"]["different_seed_compared"] = 1

    mass = np.array(rep["mass"])
    ndof_eng = np.array(rep["n_dof"], dtype=float).reshape(-1) if rep["n_dof"] is not None else None
    rc = cfg.get("remove_com")
    cons = 0.0 if rc is None else (6.0 if rc[0] == "angular" else 3.0)
    for m in range(nmol):
        nat = int((sp[m] > 0).sum())
        v0 = A[f"{m}:h5:velocities/values"][0]
        x0 = A[f"{m}:h5:coordinates/values"][0]
        ms = mass[m][:nat]
        T0 = float(A[f"{m}:h5:data/thermo/T"][0])
        Ek0 = float(A[f"{m}:h5:data/thermo/Ek"][0])
        # documented degrees of freedom: 3N - constraints (Langevin-type thermostats keep 3N)
        damped = cfg["engine"] in ("langevin", "xl_damp")
        ndof = 3.0 * nat - (0.0 if damped else cons)
        if ndof_eng is not None and abs(float(ndof_eng[m]) - ndof) > 1e-9:
            failures.append(core.fail("n-dof", f"mol {m}: engine uses n_dof={ndof_eng[m]}, documented rule gives {ndof}"))
        ek_ind = 0.5 * float((ms[:, None] * v0 * v0).sum()) * KE_SCALE
        t_ind = 2.0 * ek_ind / (ndof * KB_EV) if ndof > 0 else 0.0
        worst("const_rel", abs(ek_ind - Ek0) / max(abs(Ek0), 1e-30) if Ek0 else 0.0)
        if abs(ek_ind - Ek0) > tol["const_rel"] * max(abs(Ek0), 1e-30) + 1e-300:
            failures.append(core.fail("step0-kinetic-energy", f"mol {m}: written Ek(0)={Ek0} but 1/2 sum m v^2 of the written velocities is {ek_ind}"))
        if abs(t_ind - T0) > tol["const_rel"] * max(abs(T0), 1e-30) + 1e-300:
            failures.append(core.fail("step0-temperature-consistency", f"mol {m}: written T(0)={T0}, 2Ek/(n_dof kB) of the written velocities = {t_ind} (n_dof={ndof})"))
        if cfg.get("user_vel") is None:
            worst("T_rel", abs(T0 - cfg["temp"]) / max(cfg["temp"], 1e-30))
            if abs(T0 - cfg["temp"]) > tol["T_rel"] * max(cfg["temp"], 1e-30):
                failures.append(core.fail("step0-temperature", f"mol {m}: requested {cfg['temp']} K, step-0 temperature is {T0} K (n_dof={ndof})"))
            if cfg["temp"] > 0:
                P = (ms[:, None] * v0).sum(0)
                M = ms.sum()
                r = x0 - (ms[:, None] * x0).sum(0) / M
                L = (ms[:, None] * np.cross(r, v0)).sum(0)
                sp_ = float((ms * np.linalg.norm(v0, axis=1)).sum())
                sl_ = float((ms * np.linalg.norm(v0, axis=1) * np.linalg.norm(r, axis=1)).sum())
                worst("step0_P_rel", np.linalg.norm(P) / sp_)
                worst("step0_L_rel_when_angular", np.linalg.norm(L) / sl_ if (rc is not None and rc[0] == "angular") else 0.0)
                if np.linalg.norm(P) > tol["mom_rel"] * sp_:
                    failures.append(core.fail("step0-linear-momentum", f"mol {m}: |P|/sum m|v| = {np.linalg.norm(P) / sp_:.2e} at step 0"))
                if rc is not None and rc[0] == "angular" and np.linalg.norm(L) > tol["mom_rel"] * sl_:
                    failures.append(core.fail("step0-angular-momentum", f"mol {m}: |L|/sum m|v||r| = {np.linalg.norm(L) / sl_:.2e} at step 0 with angular removal requested"))
        else:
            rng = core.rng_for("uservel", cfg["user_vel"]["seed"])
            n = sp.shape[1]
            uv = np.array([[[rng.gauss(0, cfg["user_vel"].get("scale", 0.01)) for _ in range(3)] for _ in range(n)] for _ in range(nmol)])
            uv = uv * (sp > 0)[..., None]
            if not np.array_equal(uv[m][:nat], v0):
                d = np.abs(uv[m][:nat] - v0).max()
                failures.append(core.fail("user-velocities-altered", f"mol {m}: velocities supplied by the user differ from the step-0 velocities by up to {d:.3e} A/fs"))
            stats["probes"]["user_velocities"] = 1
    # (2b) the first integrator step starts from the velocities recorded for step 0 (drawn or user-supplied)
    fs = rep.get("first_step_vel")
    if fs is not None:
        fs = np.array(fs)
        for m in range(nmol):
            nat = int((sp[m] > 0).sum())
            v0 = A[f"{m}:h5:velocities/values"][0]
            d = np.abs(fs[m][:nat] - v0).max()
            worst("first_step_vs_step0_velocities", d)
            if d > 0.0:
                what = "user-supplied" if cfg.get("user_vel") else f"drawn at {cfg['temp']} K"
                failures.append(core.fail("first-step-velocities", f"mol {m}: the first integrator step starts from velocities that differ from the step-0 ({what}) velocities by up to {d:.3e} A/fs ({cfg['engine']})"))
            if np.abs(fs[m][nat:]).max(initial=0.0) > 0.0:
                failures.append(core.fail("padding-velocity", f"mol {m}: padding atoms enter the first step with velocity {np.abs(fs[m][nat:]).max():.3e}"))
        stats["probes"]["first_step_velocities_checked"] = 1
    # (3) every COM removal
    for z in rep["zero_com"]:
        stats["zero_com_calls"] += 1
        worst("zero_com_P_rel", z["P_rel"])
        worst("zero_com_L_rel", z["L_rel"] if z["angular"] else 0.0)
        worst("zero_com_dKE_rel", z["dKE_rel"] if (z["restore"] or not z.get("initial")) else 0.0)
        if z["P_rel"] > tol["mom_rel"]:
            failures.append(core.fail("zero-com-linear", f"after COM removal |P|/sum m|v| = {z['P_rel']:.2e}"))
        if z["angular"] and z["L_rel"] > tol["mom_rel"]:
            failures.append(core.fail("zero-com-angular", f"after angular removal |L|/sum m|v||r| = {z['L_rel']:.2e}"))
        # periodic removal (the calls made from the run loop) preserves the kinetic energy whatever flag the engine passes
        # to its helper; the removal inside the initial velocity draw is followed by the exact rescale to Temp
        if (z["restore"] or not z.get("initial")) and z["dKE_rel"] > tol["ke_rel"]:
            failures.append(core.fail("zero-com-kinetic-energy", f"{'initial' if z.get('initial') else 'periodic'} COM removal changed the kinetic energy by {z['dKE_rel']:.2e} (relative)"))
        if z["pad_v"] > 0.0:
            failures.append(core.fail("padding-velocity", f"padding atoms have velocity {z['pad_v']:.3e} after COM removal"))
    if rc is not None:
        S, stride = cfg["steps"], int(rc[1])
        expect = len([i for i in range(S) if i % stride == 0]) + (1 if (cfg["temp"] > 0 and cfg.get("user_vel") is None) else 0)
        if len(rep["zero_com"]) != expect:
            failures.append(core.fail("zero-com-schedule", f"COM removal applied {len(rep['zero_com'])} times, expected {expect} (stride {stride}, {S} steps)"))
    # (4) padding atoms never move
    for i, dv, dx in rep["pad"]:
        if dv > 0.0 or dx > 0.0:
            failures.append(core.fail("padding-moves", f"step {i}: padding atoms have |v|={dv:.3e}, moved {dx:.3e} A"))
            break
    if rep["pad"]:
        stats["probes"]["padded_batches"] = 1
    if cfg["temp"] == 0.0:
        stats["probes"]["zero_temperature"] = 1
    sig = [cfg["engine"], cfg["driver"], cfg["batch"], cfg.get("extra_pad", 0), cfg["temp"], cfg.get("remove_com"), bool(cfg.get("user_vel")), min(k, 3)]
    stats["sim_time_fs"] = cfg["steps"] * cfg["dt"] * 2
    sample = {"cfg": cfg, "rng_prefix": k, "zero_com_calls": len(rep["zero_com"]), "T0": [float(A[f"{m}:h5:data/thermo/T"][0]) for m in range(nmol)]}
    return core.Result.make(record, failures, stats, sig=sig, nontrivial=True, sample=sample, digest_=mdsim.files_digest(A))


class C13(core.Check):
    prop = PROP
    level = "exploration"
    module = "dst.c13"
    budget = {"quick": 170, "thorough": 1700}
    runs = {"quick": 500, "thorough": 8000}
    assumptions = [
        "documented degrees-of-freedom rule: 3N minus 3 (linear) or 6 (angular) constraints; Langevin-type thermostats keep 3N; linear molecules are not auto-detected (manual) so diatomics/linear molecules are never combined with angular removal",
        "configurations the library refuses loudly (n_dof <= 0, COM removal on a system at rest) are outside the domain",
        "stub electronic structure except for the stated real-driver fraction",
    ]

    def plan(self, tier, seed):
        recs = []
        for i in range(self.runs[tier]):
            rng = core.rng_for(seed, PROP, i)
            # records 1..3: the production surface-hopping engine (drawn, user-supplied, 0 K)
            pinned = (i - 1) if 1 <= i <= 3 else None
            recs.append({"i": i, "cfg": gen(rng, pinned_sh=pinned), "rng_prefix": rng.choice([1, 3, 17, 1000]), "prefix_seed": rng.randrange(1 << 20)})
        return recs

    def shrink_candidates(self, rec):
        cfg = rec["cfg"]
        out = []
        cp = lambda: json.loads(json.dumps(cfg))

        def v(c):
            return dict(rec, cfg=c)

        if len(cfg["batch"]) > 1:
            for j in range(len(cfg["batch"])):
                c = cp()
                c["batch"] = [cfg["batch"][j]]
                c["out"]["molid"] = [0]
                out.append(v(c))
        if cfg["steps"] > 1:
            c = cp()
            c["steps"] = max(1, cfg["steps"] // 2)
            out.append(v(c))
        for key in ("extra_pad", "pad_coords", "remove_com", "user_vel"):
            if cfg.get(key):
                c = cp()
                c[key] = None if key == "remove_com" else 0
                if key == "user_vel":
                    c.pop("user_vel")
                out.append(v(c))
        if cfg["engine"] != "basic" and cfg["driver"] == "stub":
            c = cp()
            c["engine"] = "basic"
            out.append(v(c))
        return out

    def coverage(self, results, tier):
        sigs, stats, engines = set(), {}, {}
        for r in results:
            core.merge_counts(stats, r["stats"])
            if r["sig"] is not None:
                sigs.add(json.dumps(r["sig"]))
                e = f"{r['sig'][0]}/{r['sig'][1]}"
                engines[e] = engines.get(e, 0) + 1
        return {
            "evaluations": len(results),
            "distinct_nontrivial": len(sigs),
            "rule": "one evaluation = one seeded configuration run three times in separate processes (as is; after a history of prior RNG draws; with seed+1), with _zero_com, initialize_velocity and the integrator step wrapped; distinct = distinct (engine, driver, batch, padding, temperature, remove_com, user velocities, prior-draw class); all are non-trivial (every run checks the seed and step-0 oracles)",
            "samples": [r["sample"] for r in results if r.get("sample")][:3],
            "zero_com_applications_checked": stats.get("zero_com_calls", 0),
            "probes": stats.get("probes", {}),
            "worst_observed": stats.get("max", {}),
            "tolerances_used": core.tolerances()["C13"],
            "engines": engines,
            "simulated_time_fs": stats.get("sim_time_fs", 0),
            "components": {"real": ["initialize_velocity, _zero_com, run loop, seeding, HDF5 writer"], "stub": ["electronic structure in the stub stratum"]},
        }


def main(argv=None):
    return core.main(C13(), argv)
