"""A surface-hopping engine whose electronic structure is an N-state analytic model (stub), usable by
mdsim like any other engine *including checkpoint/resume*.

The class is deliberately named SurfaceHoppingDynamics: checkpoints store the class name and
NonadiabaticDynamics.run_from_checkpoint() looks it up in its module namespace at call time, so the
child patches `seqm.NonadiabaticDynamics.SurfaceHoppingDynamics = <this class>` and the real resume
path (real _load_checkpoint_base, real Molecule, real nad_state restoration, real RNG restore)
re-creates the model engine.  Model parameters travel in seqm_parameters["_shmodel"].
Everything except the electronic structure (run loop, propagation, hops, rescaling, writers,
checkpoint build/save/load) is the repository's code.
"""
import torch

import seqm.NonadiabaticDynamics as NDm

_Real = NDm.SurfaceHoppingDynamics


class NStateModel:
    def __init__(self, ns, seed):
        g = torch.Generator().manual_seed(seed)
        self.ns = ns
        self.eps = torch.sort(torch.rand(ns, generator=g) * 1.0)[0]
        self.slope = (torch.rand(ns, generator=g) - 0.5) * 1.5
        c = torch.rand(ns, ns, generator=g) * 0.08
        self.c = (c + c.T) / 2 * (1 - torch.eye(ns))
        self.q0, self.k = 1.0, 6.0

    def solve(self, R):
        rv = R[:, 1] - R[:, 0]
        q = rv.norm(dim=1)
        u = rv / q.unsqueeze(1)
        d = q - self.q0
        diag = self.eps + self.slope * d.unsqueeze(1) + 0.5 * self.k * d.unsqueeze(1) ** 2
        gauss = torch.exp(-(d**2) / 0.05).view(-1, 1, 1)
        H = torch.diag_embed(diag) + self.c * gauss
        dH = torch.diag_embed(self.slope + self.k * d.unsqueeze(1)) + self.c * gauss * (-2 * d / 0.05).view(-1, 1, 1)
        E, U = torch.linalg.eigh(H)
        s = torch.sign(U[:, 0:1, :])
        s[s == 0] = 1
        U = U * s
        G = U.transpose(1, 2) @ dH @ U
        dE = torch.diagonal(G, dim1=1, dim2=2)
        gap = E.unsqueeze(1) - E.unsqueeze(2)
        nac = torch.where(gap.abs() > 1e-12, G / gap, torch.zeros_like(G)) * (1 - torch.eye(self.ns))
        dq = torch.zeros_like(R)
        dq[:, 0] = -u
        dq[:, 1] = u
        return E, dE, nac, dq


class SurfaceHoppingDynamics(_Real):
    def __init__(self, seqm_parameters, *args, **kwargs):
        mp = seqm_parameters["_shmodel"]
        exc = seqm_parameters.setdefault("excited_states", {})
        exc.setdefault("n_states", mp["ns"])
        na = seqm_parameters.setdefault("nonadiabatic", {})
        na.setdefault("compute_nac", True)
        na.setdefault("detect_crossings", False)
        super().__init__(seqm_parameters, *args, **kwargs)
        self.model = NStateModel(mp["ns"], mp["seed"])
        self._ns = mp["ns"]
        self._nstates = mp["ns"]
        self._electronic_substeps = mp.get("substeps")

    def _setup_states(self, molecule):
        self._nstates = self._ns
        self._ensure_active_states(molecule.species.shape[0], molecule.coordinates.device)

    def initialize(self, molecule, remove_com=None, learned_parameters=None, *a, **k):
        self._setup_states(molecule)
        self._init_coeffs(molecule)
        molecule.active_state = self._active_states + 1
        self._compute_electronic_structure(molecule, learned_parameters or {})
        return super().initialize(molecule, remove_com=remove_com, learned_parameters=learned_parameters, *a, **k)

    def _compute_electronic_structure(self, molecule, learned_parameters, **kw):
        R = molecule.coordinates.detach()
        E, dE, nac, dq = self.model.solve(R)
        nmol = R.shape[0]
        ar = torch.arange(nmol)
        self._E, self._dE, self._nac, self._dq = E, dE, nac, dq
        molecule.cis_energies = E.clone()
        act = self._active_states
        molecule.Etot = E[ar, act].clone()
        real = (molecule.species > 0).unsqueeze(-1)
        molecule.force = (-dE[ar, act]).view(nmol, 1, 1) * dq * real
        molecule.dm = torch.zeros(nmol, 1, 1)
        molecule.e_gap = torch.ones(nmol)
        molecule.dipole = torch.stack([E[:, 0], dE[:, 0], (R * real).sum((1, 2))], dim=1)
        if getattr(molecule, "velocities", None) is not None and torch.is_tensor(molecule.velocities):
            qdot = (molecule.velocities * dq).sum((1, 2))
        else:
            qdot = torch.zeros(nmol)
        self._cache_new = {"energies": E.clone(), "nac_dot": nac * qdot.view(-1, 1, 1)}
        return self._cache_new["energies"]

    def _compute_NACR_for_hop(self, molecule, nac_pairs):
        return {(a - 1, b - 1): self._nac[:, a - 1, b - 1].view(-1, 1, 1) * self._dq for (a, b) in nac_pairs}

    def _recompute_active_force(self, molecule):
        molecule.active_state = self._active_states + 1  # as the real implementation does
        nmol = molecule.coordinates.shape[0]
        ar = torch.arange(nmol)
        real = (molecule.species > 0).unsqueeze(-1)
        molecule.force = (-self._dE[ar, self._active_states]).view(nmol, 1, 1) * self._dq * real
