"""Stub electronic-structure driver (injected at seqm.MolecularDynamics.esdriver).

Same call signature and attribute skeleton as seqm.ElectronicStructure.Electronic_Structure.
Energy/forces: rigid-motion-invariant analytic pair potential over the real atoms (closed-form
forces).  Density: a smooth synthetic "ground-state density" D*(R); for dm_prop="XL-BOMD" a linear
response D = D* + gamma (P - D*).  Parameters travel inside seqm_parameters["_stub"] so that
run_from_checkpoint() re-creates an identical driver.
"""
import types

import numpy as np
import torch

# soft defaults: with dt <= 0.5 fs the fastest pair frequency stays far below the Verlet stability limit
# even for far-from-equilibrium starts (the quartic "harm" form stiffens with stretch)
DEFAULT = {"pot": "harm", "k": 1.5, "r0": 1.6, "D": 1.0, "a": 1.0, "gamma": 0.3}


def pair_energy(r, p):
    if p["pot"] == "zero":
        return torch.zeros_like(r), torch.zeros_like(r)
    if p["pot"] == "harm":
        # k (r^2 - r0^2)^2 / (8 r0^2): harmonic with constant k at r0, and a polynomial in the Cartesian
        # coordinates (no cusp at r = 0, unlike (r - r0)^2), so the dt -> 0 asymptotics is clean
        r0 = p["r0"]
        return p["k"] * (r * r - r0 * r0) ** 2 / (8.0 * r0 * r0), p["k"] * r * (r * r - r0 * r0) / (2.0 * r0 * r0)
    if p["pot"] == "morse":
        ex = torch.exp(-p["a"] * (r - p["r0"]))
        return p["D"] * (1.0 - ex) ** 2, 2.0 * p["D"] * p["a"] * (1.0 - ex) * ex
    raise ValueError(p["pot"])


class StubES(torch.nn.Module):
    calls = 0

    def __init__(self, seqm_parameters, *a, **k):
        super().__init__()
        self.seqm_parameters = seqm_parameters
        self.p = dict(DEFAULT)
        self.p.update(seqm_parameters.get("_stub", {}))
        self._p = torch.nn.Parameter(torch.zeros(1), requires_grad=False)
        energy = types.SimpleNamespace(
            md=False,
            namd=False,
            xlesmd=False,
            excited_states=seqm_parameters.get("excited_states"),
            method=seqm_parameters.get("method"),
            hamiltonian=types.SimpleNamespace(eps=None),
        )
        self.conservative_force = types.SimpleNamespace(energy=energy)

    def forward(
        self, molecule, learned_parameters=None, xl_bomd_params=None, P0=None, dm_prop="SCF", cis_amp=None, **kw
    ):
        StubES.calls += 1
        p = self.p
        R = molecule.coordinates.detach()
        real = molecule.species > 0
        nmol, n = molecule.species.shape
        d = R.unsqueeze(1) - R.unsqueeze(2)  # d[m,i,j] = R_j - R_i
        r2 = (d * d).sum(-1)
        pm = (real.unsqueeze(1) & real.unsqueeze(2)) & ~torch.eye(n, dtype=torch.bool).unsqueeze(0)
        r = torch.sqrt(torch.where(pm, r2, torch.ones_like(r2)))
        e, de = pair_energy(r, p)
        E = 0.5 * (e * pm).sum((1, 2))
        # F_i = -dE/dR_i = sum_j e'(r_ij) (R_j - R_i)/r_ij
        F = ((de / r * pm).unsqueeze(-1) * d).sum(2)
        molecule.force = F
        molecule.Etot = E
        molecule.Hf = E.clone()
        molecule.Eelec = E.clone()
        molecule.Enuc = torch.zeros_like(E)
        molecule.Eiso = torch.zeros_like(E)
        Dstar = (torch.exp(-r2) * (real.unsqueeze(1) & real.unsqueeze(2))).repeat_interleave(4, 1).repeat_interleave(4, 2)
        if dm_prop == "XL-BOMD":
            molecule.dm = Dstar + p["gamma"] * (P0 - Dstar)
            molecule.Electronic_entropy = torch.zeros(nmol, dtype=R.dtype)
            molecule.dP2dt2 = molecule.dm - P0
        else:
            molecule.dm = Dstar
        # as in the real Energy module: excited states are computed when the energy module holds the settings, or in
        # XL-ESMD mode (where the engine sets them to None after its initial evaluation)
        en = self.conservative_force.energy
        exc = en.excited_states if en.excited_states is not None else (self.seqm_parameters.get("excited_states") if en.xlesmd else None)
        if isinstance(exc, dict) and "n_states" in exc:
            # synthetic excited-state bookkeeping (amplitudes, transition densities, state energies) with a linear
            # response to the amplitudes / transition densities handed in, so that the engines' excited-state
            # history (reuse of amplitudes, XL history of transition densities, checkpointed copies) is visible
            nst = int(exc["n_states"])
            nb = Dstar.shape[-1]
            ks = torch.arange(1, nst + 1, dtype=R.dtype).view(1, nst, 1, 1)
            Tstar = Dstar.unsqueeze(1) * torch.cos(0.3 * ks) + 0.05 * torch.sin(0.7 * ks) * torch.eye(nb, dtype=R.dtype).view(1, 1, nb, nb)
            amp_star = Tstar[:, :, :2, :].reshape(nmol, nst, 2 * nb)
            T, amp = Tstar, amp_star
            if torch.is_tensor(cis_amp):
                if cis_amp.shape == Tstar.shape:
                    T = Tstar + p["gamma"] * (cis_amp - Tstar)
                    amp = T[:, :, :2, :].reshape(nmol, nst, 2 * nb)
                elif cis_amp.shape == amp_star.shape:
                    amp = amp_star + p["gamma"] * (cis_amp - amp_star)
                    T = Tstar.clone()
                    T[:, :, :2, :] = amp.reshape(nmol, nst, 2, nb)
            molecule.cis_amplitudes = amp
            molecule.transition_density_matrices = T
            molecule.cis_energies = 3.0 + torch.arange(nst, dtype=R.dtype).view(1, nst) + 0.05 * E.unsqueeze(1) + 0.01 * (amp * amp).sum(-1)
            molecule.old_mos = Dstar.clone()
            molecule.molecular_orbitals = Dstar.clone()
            act = molecule.active_state
            act = act if torch.is_tensor(act) else torch.full((nmol,), int(act), dtype=torch.long)
            on = act > 0
            if on.any():
                idx = (act - 1).clamp(min=0)
                molecule.Etot = E + torch.where(on, molecule.cis_energies[torch.arange(nmol), idx], torch.zeros_like(E))
            Wd = torch.stack([torch.sin(0.21 * (torch.arange(nb, dtype=R.dtype).unsqueeze(0) + 3.0 * torch.arange(nb, dtype=R.dtype).unsqueeze(1)) + c) for c in (0.5, 1.5, 2.5)], 0)
            self._exc_dipole = torch.einsum("mij,cij->mc", T[:, 0], Wd)
            molecule.transition_dipole = torch.einsum("msij,cij->msc", T, Wd)
            molecule.oscillator_strength = (2.0 / 3.0) * molecule.cis_energies * (molecule.transition_dipole**2).sum(-1)
        else:
            self._exc_dipole = None
        molecule.e_gap = torch.ones(nmol, dtype=R.dtype)
        molecule.e_mo = torch.zeros(nmol, 4 * n, dtype=R.dtype)
        # "dipole": a fixed linear functional of the density is added, so that the density history of the
        # XL engines (P -> D) is visible in the files (/data/properties/ground_dipole) and any error in
        # restoring that history on resume shows up in the exact file comparison
        nb = molecule.dm.shape[-1]
        ii = torch.arange(nb, dtype=R.dtype)
        W = torch.stack([torch.cos(0.37 * (ii.unsqueeze(0) + 2.0 * ii.unsqueeze(1)) + c) for c in (0.0, 1.0, 2.0)], 0)
        molecule.dipole = (R * real.unsqueeze(-1)).sum(1) * 0.1 + torch.einsum("mij,cij->mc", molecule.dm, W)
        if self._exc_dipole is not None:
            molecule.dipole = molecule.dipole + self._exc_dipole
        molecule.q = torch.zeros(nmol, n, dtype=R.dtype)


# ---- independent NumPy mirror (used by reference integrators; deliberately not sharing code paths
# beyond the parameter dictionary)


def np_energy_forces(R, real, p):
    """R: (n,3) float64, real: (n,) bool -> (E, F(n,3)) for one molecule."""
    n = R.shape[0]
    E = 0.0
    F = np.zeros_like(R)
    for i in range(n):
        if not real[i]:
            continue
        for j in range(i + 1, n):
            if not real[j]:
                continue
            dv = R[j] - R[i]
            r = float(np.sqrt(dv @ dv))
            if p["pot"] == "zero":
                e, de = 0.0, 0.0
            elif p["pot"] == "harm":
                e = p["k"] * (r * r - p["r0"] ** 2) ** 2 / (8.0 * p["r0"] ** 2)
                de = p["k"] * r * (r * r - p["r0"] ** 2) / (2.0 * p["r0"] ** 2)
            else:
                ex = np.exp(-p["a"] * (r - p["r0"]))
                e, de = p["D"] * (1 - ex) ** 2, 2 * p["D"] * p["a"] * (1 - ex) * ex
            E += e
            F[i] += de * dv / r
            F[j] -= de * dv / r
    return E, F
