"""C09 - XL-BOMD propagation: SCF-consistent, fixed-point preserving, stable.

Layers (all on the real XL_BOMD / KSA_XL_BOMD objects):
 recurrence  the real integrator step (real rotating coefficient window, real history-slot arithmetic)
             driven with synthetic densities from the stub driver on a frozen geometry: (a) D == P is a
             fixed point to round-off; (b) under the linear response D = D* + gamma (P - D*) a perturbation
             injected at every phase of the history buffer is never amplified beyond the frozen bound
             and does not grow.  k x phase x gamma grid x {plain, Krylov} is enumerated COMPLETELY.
 restart     whole engine on the stub (moving atoms, density visible in the files) killed and resumed at
             every phase of the buffer: the continuation must be exactly the uninterrupted one.
 consistency real SEQM: with the auxiliary density equal to the converged one, XL energy and forces are
             the SCF ones (plain, and Krylov rank 1-4 with electronic temperature).
 scaling     real SEQM: shadow-energy fluctuation ~ dt^2, no drift, trajectory -> BOMD as dt -> 0.
"""
import json
import math
import os
import shutil

import numpy as np

from . import core, mdsim

PROP = "C09"
GAMMAS = [-0.05, 0.0, 0.3, 0.6, 0.9, 0.99]


# ----------------------------------------------------------------------------------------------
# layer 1: recurrence


def _child_recurrence(rec):
    import torch

    import seqm.MolecularDynamics as MDm
    from seqm.Molecule import Molecule
    from seqm.seqm_functions.constants import Constants

    from . import stub

    torch.set_num_threads(1)
    torch.set_default_dtype(torch.float64)
    MDm.esdriver = stub.StubES
    k, gamma, phase, N = rec["k"], rec["gamma"], rec["phase"], rec["N"]
    cfg = {"batch": rec.get("batch", ["h2o"]), "rotate": 5}
    sp_np, xyz_np = mdsim.build_batch(cfg)
    params = {"method": "AM1", "scf_eps": 1e-8, "scf_converger": [1], "_stub": {"pot": "zero", "gamma": gamma}}
    mol = Molecule(Constants(), params, torch.as_tensor(xyz_np), torch.as_tensor(sp_np, dtype=torch.int64))
    out = {"molid": [0], "prefix": "/nonexistent/x", "print every": 0, "checkpoint every": 0, "xyz": 0, "h5": {}}
    if rec["engine"] == "ksa":
        md = MDm.KSA_XL_BOMD(xl_bomd_params={"k": k, "max_rank": 2, "err_threshold": 0.0, "T_el": 1500}, seqm_parameters=params, timestep=0.5, Temp=0.0, output=out)
    else:
        md = MDm.XL_BOMD(xl_bomd_params={"k": k}, seqm_parameters=params, timestep=0.5, Temp=0.0, output=out)
    md.initialize(mol, remove_com=None, learned_parameters={}, steps=None)
    Dstar = mol.dm.clone()
    x0 = mol.coordinates.detach().clone()
    g = torch.Generator().manual_seed(rec["seed"])
    m = k + 1
    warm = 3 * m + phase  # the perturbation is injected when (step mod k+1) == phase, after the buffer has wrapped
    fp_dev = 0.0
    for i in range(warm):
        md._do_integrator_step(i, mol, {})
        fp_dev = max(fp_dev, float((md._xl_ctx["P"] - Dstar).abs().max() / Dstar.abs().max()))
    delta = torch.randn(Dstar.shape, generator=g)
    delta = 1e-3 * (delta + delta.transpose(1, 2)) / delta.norm()
    eps = float(delta.norm())
    with torch.no_grad():
        md._xl_ctx["P"] = md._xl_ctx["P"] + delta
        md._xl_ctx["Pt"] = md._xl_ctx["Pt"] + delta.unsqueeze(0)
        # the density the next propagation reads must be the response to the perturbed auxiliary density
        mol.dm = Dstar + gamma * (md._xl_ctx["P"] - Dstar)
        if rec["engine"] == "ksa":
            mol.dP2dt2 = mol.dm - md._xl_ctx["P"]
    amps = []
    for i in range(warm, warm + N):
        md._do_integrator_step(i, mol, {})
        amps.append(float((md._xl_ctx["P"] - Dstar).norm()) / eps)
    moved = float((mol.coordinates.detach() - x0).abs().max())
    third = max(1, N // 3)
    return {
        "fixed_point_dev": fp_dev,
        "max_amp": max(amps),
        "early_max": max(amps[:third]),
        "late_max": max(amps[-third:]),
        "end_amp": amps[-1],
        "moved": moved,
        "coeff_sum": float(md.coeff[:m].sum() + md.coeff_D),
        "head": amps[:12],
    }


def _recurrence(record, root):
    tol = core.tolerances()["C09"]
    failures, stats = [], {"probes": {"recurrence_cases": 1}, "max": {}}
    st, payload = core.run_in_child(_child_recurrence, (record,), timeout=900, stdout_path=os.path.join(root, "out.txt"))
    if st != 0 or not payload or "ok" not in payload:
        failures.append(core.fail("run-failed", f"driving the real XL step with synthetic densities raised: {str(payload)[:400]}"))
        return core.Result.make(record, failures, stats, sig=None, nontrivial=False)
    r = payload["ok"]
    tag = f"k={record['k']} engine={record['engine']} phase={record['phase']} gamma={record['gamma']}"
    stats["max"]["fixed_point_dev"] = r["fixed_point_dev"]
    stats["max"]["amplification"] = r["max_amp"]
    stats["max"]["late_over_early"] = r["late_max"] / max(r["early_max"], 1e-300)
    if r["moved"] > 0:
        raise core.HarnessError("atoms moved in the frozen-geometry recurrence driver")
    if abs(r["coeff_sum"] - 1.0) > tol["coeff_sum"]:
        failures.append(core.fail("weights-do-not-sum-to-one", f"{tag}: coeff_D + sum of history weights = {r['coeff_sum']!r}"))
    if r["fixed_point_dev"] > tol["fixed_point"]:
        failures.append(core.fail("fixed-point-not-preserved", f"{tag}: with D == P the auxiliary density drifts by {r['fixed_point_dev']:.3e} (relative) within {3 * (record['k'] + 1) + record['phase']} steps"))
    if r["max_amp"] > tol["max_amp"]:
        failures.append(core.fail("perturbation-amplified", f"{tag}: a perturbation of the auxiliary density is amplified {r['max_amp']:.2f}x (bound {tol['max_amp']}); first steps {[round(a, 3) for a in r['head']]}"))
    if r["late_max"] > tol["growth"] * r["early_max"] and r["late_max"] > 1e-6:
        failures.append(core.fail("perturbation-grows", f"{tag}: perturbation grows over {record['N']} steps (early max {r['early_max']:.3e}, late max {r['late_max']:.3e})"))
    sig = ["recurrence", record["engine"], record["k"], record["phase"], record["gamma"]]
    stats["sim_steps"] = record["N"]
    return core.Result.make(record, failures, stats, sig=sig, nontrivial=True, sample={"case": record, "result": {k: v for k, v in r.items() if k != "head"}}, digest_=core.digest(r))


# ----------------------------------------------------------------------------------------------
# layer 2: restart at every buffer phase


def _restart(record, root):
    failures, stats = [], {"probes": {"restart_cases": 1}, "max": {}}
    k, ph = record["k"], record["phase"]
    m = k + 1
    S = 3 * m + 2
    crash_step = 2 * m + ph + 1  # resume point = crash_step - 1, i.e. every residue mod k+1 is visited
    cfg = {
        "engine": record["engine"],
        "driver": "stub",
        "batch": record.get("batch", ["h2o", "h2"]),
        "steps": S,
        "dt": 0.4,
        "temp": 300.0,
        "seed": record["seed"],
        "k": k,
        "stub": {"pot": "morse", "gamma": 0.5},
        "out": {"molid": [0, 1], "print": 0, "ckpt": 1, "xyz": 0, "h5": {"data": 1, "coordinates": 1, "velocities": 0, "forces": 0}},
        "reuse_P": True,
        "remove_com": None,
    }
    if record["engine"] == "ksa":
        cfg["max_rank"] = 2
    if record["engine"] == "xl_damp":
        cfg["damp"] = 20.0
    if record["engine"] in ("exc_xl", "xl_esmd"):
        # excited-state surfaces: the history of transition densities is propagated and restored as well
        cfg.update(n_states=2, active_state=1 + (record["seed"] % 2))
        cfg["out"]["h5"]["transition_density_matrices"] = 1
    opts = {"io_seam": False}
    ref, run = os.path.join(root, "ref"), os.path.join(root, "run")
    os.makedirs(ref)
    os.makedirs(run)
    r0 = mdsim.run_incarnation(cfg, ref, 0, None, "fresh", opts)
    if r0["status"] != 0:
        raise core.HarnessError(f"reference XL run failed: {r0.get('exc')}")
    kind = record["crash"]
    fault = {"kind": "soft", "clock": "step", "step": crash_step, "off": 0} if kind == "soft" else {"kind": "hard", "clock": "line", "step": crash_step, "off": 3}
    r1 = mdsim.run_incarnation(cfg, run, 0, fault, "fresh", dict(opts, line_clock=(kind == "hard")))
    if r1["status"] not in (3, 137):
        raise core.HarnessError(f"injected crash did not fire: {r1}")
    r2 = mdsim.run_incarnation(cfg, run, 1, None, "resume", opts)
    if r2["status"] != 0:
        failures.append(core.fail("resume-failed", f"k={k} resume at phase {(crash_step - 1) % m} raised {r2.get('exc')}"))
        return core.Result.make(record, failures, stats, sig=None, nontrivial=False)
    A, _ = mdsim.dump_files(ref, cfg)
    B, _ = mdsim.dump_files(run, cfg)
    bad = mdsim.compare(A, B)
    if bad:
        failures.append(
            core.fail(
                "restart-changes-continuation",
                f"engine={record['engine']} k={k}: resuming at step {crash_step - 1} (buffer phase {(crash_step - 1) % m}) does not continue the uninterrupted run: {bad[:2]}",
            )
        )
    # density actually differs from D* (so that the comparison is meaningful): dipole channel varies
    sig = ["restart", record["engine"], k, (crash_step - 1) % m, kind]
    stats["sim_time_fs"] = S * 0.4 * 2
    return core.Result.make(record, failures, stats, sig=sig, nontrivial=True, sample={"case": record, "resume_step": crash_step - 1, "steps": S}, digest_=mdsim.files_digest(B))


# ----------------------------------------------------------------------------------------------
# layer 2b: a reused driver object starts its second run from the converged density again


def _reuse(record, root):
    failures, stats = [], {"probes": {"reuse_cases": 1}, "max": {}}
    k = record["k"]
    cfg = {
        "engine": record["engine"],
        "driver": "stub",
        "batch": record["batch"],
        "steps": 2 * (k + 1) + 3,
        "dt": 0.4,
        "temp": 300.0,
        "seed": record["seed"],
        "k": k,
        "stub": {"pot": "morse", "gamma": 0.5},
        "out": {"molid": [0], "print": 0, "ckpt": 0, "xyz": 0, "h5": {"data": 1, "coordinates": 1, "velocities": 0, "forces": 0}},
        "reuse_P": True,
        "remove_com": None,
    }
    if record["engine"] == "ksa":
        cfg["max_rank"] = 2
    if record["engine"] == "xl_damp":
        cfg["damp"] = 20.0
    if record["engine"] in ("exc_xl", "xl_esmd"):
        cfg.update(n_states=2, active_state=1 + (record["seed"] % 2))
        cfg["out"]["h5"]["transition_density_matrices"] = 1
    opts = {"io_seam": False}
    ref, run = os.path.join(root, "ref"), os.path.join(root, "run")
    os.makedirs(ref)
    os.makedirs(run)
    r0 = mdsim.run_incarnation(cfg, ref, 0, None, "fresh", opts)
    if r0["status"] != 0:
        raise core.HarnessError(f"reference XL run failed: {r0.get('exc')}")
    pre = mdsim.same_shape_batch(cfg["batch"], core.rng_for("c09reuse", record["seed"]))
    c2 = dict(cfg, pre_run={"batch": pre, "steps": record["pre_steps"]})
    r1 = mdsim.run_incarnation(c2, run, 0, None, "fresh", opts)
    if r1["status"] != 0:
        failures.append(core.fail("reused-driver-fails", f"engine={record['engine']} k={k}: a second run() on a driver object that ran {pre} for {record['pre_steps']} steps before raised {(r1.get('exc') or {}).get('type')}: {((r1.get('exc') or {}).get('msg') or '')[:200]}"))
        return core.Result.make(record, failures, stats, sig=None, nontrivial=False)
    A, _ = mdsim.dump_files(ref, cfg)
    B, _ = mdsim.dump_files(run, cfg)
    bad = mdsim.compare(A, B)
    if bad:
        failures.append(core.fail("reused-driver-changes-run", f"engine={record['engine']} k={k}: the run on a driver object used before (for {pre}, {record['pre_steps']} steps) differs from the run on a new driver: the auxiliary density / history of the earlier run leaked: {bad[:2]}"))
    sig = ["reuse", record["engine"], k, record["pre_steps"] % (k + 1)]
    return core.Result.make(record, failures, stats, sig=sig, nontrivial=True, sample={"case": record, "pre_batch": pre}, digest_=mdsim.files_digest(B))


# ----------------------------------------------------------------------------------------------
# layer 3: consistency with SCF at P = D (real SEQM)


def _child_moved(rec, sp_np, xyz_np):
    """History: SCF at R0 - the atoms move (as an MD step moves them, in place) - XL evaluation at R1 on the SAME
    molecule / driver objects with the auxiliary density set to the converged density of R1.  The XL energy and forces
    must be the SCF ones of R1 (fresh objects).  Options: Hamiltonian parameters supplied by a geometry-dependent
    callable (documented `learned_parameters` workflow), a finite pair cutoff that one atom pair crosses between R0 and R1."""
    import numpy as np
    import torch

    from seqm.basics import Pack_Parameters
    from seqm.ElectronicStructure import Electronic_Structure
    from seqm.Molecule import Molecule
    from seqm.seqm_functions.constants import Constants

    mv = rec["moved"]
    species = torch.as_tensor(sp_np, dtype=torch.int64)
    R0 = torch.as_tensor(xyz_np)
    g = torch.Generator().manual_seed(rec["rotate"] % (1 << 31))
    real = (species > 0).unsqueeze(-1)
    R1 = R0 + mv["sigma"] * torch.randn(R0.shape, generator=g) * real
    elements = sorted({0} | set(int(z) for z in sp_np.reshape(-1)))
    base = {"method": rec["method"], "scf_eps": 1e-11, "scf_converger": [1], "elements": elements}
    if mv.get("cutoff"):
        # the real atom pair (of molecule 0) whose distance changes most between R0 and R1 crosses the cutoff
        d0 = torch.cdist(R0[0], R0[0]).numpy()
        d1 = torch.cdist(R1[0], R1[0]).numpy()
        nat = int((sp_np[0] > 0).sum())
        cand = [(abs(d1[a, b] - d0[a, b]), a, b) for a in range(nat) for b in range(a + 1, nat) if min(d0[a, b], d1[a, b]) > 1.45]
        if cand:
            _, a, b = max(cand)
            base["pair_outer_cutoff"] = float(0.5 * (d0[a, b] + d1[a, b]))
    learned = ["U_ss", "U_pp", "beta_s", "beta_p"] if mv.get("learned") else []
    table_src = Pack_Parameters({"method": rec["method"], "elements": elements})

    def generator(sp_, xyz_):
        # tabulated value + a smooth function of the atomic environment, one value per real atom (detached)
        with torch.no_grad():
            flat = sp_.reshape(-1)
            rl = flat > 0
            table = table_src(flat[rl], learned_params={})[0]
            n = sp_.shape[1]
            d = torch.cdist(xyz_, xyz_)
            pair = (sp_ > 0).unsqueeze(1) & (sp_ > 0).unsqueeze(2) & ~torch.eye(n, dtype=torch.bool).unsqueeze(0)
            env = (torch.exp(-((d / 1.2) ** 2)) * pair).sum(dim=2).reshape(-1)[rl]
            return {"U_ss": table["U_ss"] + 1.5 * env, "U_pp": table["U_pp"] + 1.0 * env, "beta_s": table["beta_s"] - 1.0 * env, "beta_p": table["beta_p"] - 0.8 * env}

    def settings():
        sp = dict(base, elements=list(elements))
        if learned:
            sp["learned"] = list(learned)
        return sp

    lp = generator if learned else {}

    def fresh(R):
        sp = settings()
        m = Molecule(Constants(), sp, R.clone(), species.clone(), learned_parameters=lp)
        m.verbose = False
        e = Electronic_Structure(sp)
        e(m, learned_parameters=lp)
        return m, e

    ref, _ = fresh(R1)  # SCF at R1, new objects
    mol, es = fresh(R0)  # SCF at R0 ...
    with torch.no_grad():
        mol.coordinates.add_(R1 - R0)  # ... the atoms move ...
    xl = {"k": rec["k"]}
    if rec["rank"]:
        xl.update(max_rank=rec["rank"], err_threshold=0.0, T_el=rec["T_el"])
    es(mol, learned_parameters=lp, P0=ref.dm.detach().clone(), dm_prop="XL-BOMD", xl_bomd_params=xl)  # ... XL evaluation at R1
    return {
        "solo": None,
        "dE": float((mol.Etot - ref.Etot).abs().max()),
        "dE_with_entropy": 0.0,
        "dF": float((mol.force - ref.force).abs().max()),
        "dD": float((mol.dm - ref.dm).abs().max()),
        "Fmax": float(ref.force.abs().max()),
        "cutoff": base.get("pair_outer_cutoff"),
    }


def _child_consistency(rec):
    import torch

    from seqm.ElectronicStructure import Electronic_Structure
    from seqm.Molecule import Molecule
    from seqm.seqm_functions.constants import Constants

    torch.set_num_threads(1)
    torch.set_default_dtype(torch.float64)
    cfg = {"batch": rec["batch"], "rotate": rec["rotate"], "distort": 0.05, "geom_seed": rec["rotate"]}
    sp_np, xyz_np = mdsim.build_batch(cfg)
    mv = rec.get("moved")
    if mv:
        return _child_moved(rec, sp_np, xyz_np)
    sp = {"method": rec["method"], "scf_eps": 1e-11, "scf_converger": [1]}
    mol = Molecule(Constants(), sp, torch.as_tensor(xyz_np), torch.as_tensor(sp_np, dtype=torch.int64))
    mol.verbose = False
    es = Electronic_Structure(sp)
    es(mol)
    E0, F0, D = mol.Etot.clone(), mol.force.clone(), mol.dm.clone()
    xl = {"k": rec["k"]}
    if rec["rank"]:
        xl.update(max_rank=rec["rank"], err_threshold=0.0, T_el=rec["T_el"])
    es(mol, P0=D.clone(), dm_prop="XL-BOMD", xl_bomd_params=xl)
    ent = mol.Electronic_entropy if torch.is_tensor(mol.Electronic_entropy) else torch.zeros_like(E0)
    solo = None
    if rec["rank"] and len(rec["batch"]) > 1:
        # the same molecules one at a time (no zero padding): the thermal (finite T_el) XL evaluation of a molecule
        # must not depend on its batch mates, whatever the electronic temperature
        solo = {"dE": 0.0, "dF": 0.0}
        for j in range(len(rec["batch"])):
            nat = int((sp_np[j] > 0).sum())
            spj = {"method": rec["method"], "scf_eps": 1e-11, "scf_converger": [1]}
            mj = Molecule(Constants(), spj, torch.as_tensor(xyz_np[j : j + 1, :nat]), torch.as_tensor(sp_np[j : j + 1, :nat], dtype=torch.int64))
            mj.verbose = False
            ej = Electronic_Structure(spj)
            ej(mj)
            ej(mj, P0=mj.dm.clone(), dm_prop="XL-BOMD", xl_bomd_params=dict(xl))
            solo["dE"] = max(solo["dE"], float((mj.Etot[0] - mol.Etot[j]).abs()))
            solo["dF"] = max(solo["dF"], float((mj.force[0] - mol.force[j, :nat]).abs().max()))
    return {
        "solo": solo,
        "dE": float((mol.Etot - E0).abs().max()),
        "dE_with_entropy": float((mol.Etot + ent - E0).abs().max()),
        "dF": float((mol.force - F0).abs().max()),
        "dD": float((mol.dm - D).abs().max()),
        "Fmax": float(F0.abs().max()),
    }


def _consistency(record, root):
    tol = core.tolerances()["C09"]
    failures, stats = [], {"probes": {"consistency_cases": 1}, "max": {}}
    st, payload = core.run_in_child(_child_consistency, (record,), timeout=900, stdout_path=os.path.join(root, "out.txt"))
    if st != 0 or not payload or "ok" not in payload:
        failures.append(core.fail("run-failed", f"XL evaluation at the converged density raised: {str(payload)[:400]}"))
        return core.Result.make(record, failures, stats, sig=None, nontrivial=False)
    r = payload["ok"]
    tag = f"{record['batch']} {record['method']} k={record['k']} rank={record['rank']} T_el={record.get('T_el')}"
    if record.get("moved"):
        mvd = record["moved"]
        tag += f" history=[SCF at R0, atoms moved by ~{mvd['sigma']} A, XL at R1 on the same objects] learned-parameter callable={bool(mvd.get('learned'))} pair cutoff={r.get('cutoff')}"
        stats["probes"]["moved_history_cases"] = 1
        if mvd.get("learned"):
            stats["probes"]["moved_with_geometry_dependent_parameters"] = 1
        if r.get("cutoff"):
            stats["probes"]["moved_with_pair_crossing_the_cutoff"] = 1
    # above 1500 K the thermal occupations legitimately move the XL energy away from the zero-temperature SCF
    # one (measured 1e-6 eV at 5000 K, 1e-3 eV at 8000 K): there only the batch-independence form is decided
    cold = not record.get("T_el") or record["T_el"] <= 1500
    if cold:
        stats["max"]["consistency_dE"] = r["dE"]
        stats["max"]["consistency_dF"] = r["dF"]
    else:
        stats["max"].pop("consistency_dE", None)
        stats["max"].pop("consistency_dF", None)
        stats["probes"]["hot_electronic_temperature"] = 1
    if cold and r["dE"] > tol["consistency_dE"]:
        failures.append(core.fail("xl-energy-differs-from-scf", f"{tag}: with the auxiliary density equal to the converged density the XL energy differs from the SCF energy by {r['dE']:.3e} eV"))
    if cold and r["dF"] > tol["consistency_dF"]:
        failures.append(core.fail("xl-force-differs-from-scf", f"{tag}: XL forces differ from SCF forces by {r['dF']:.3e} eV/A at P = D"))
    if r.get("solo"):
        stats["max"]["consistency_solo_dE"] = r["solo"]["dE"]
        stats["max"]["consistency_solo_dF"] = r["solo"]["dF"]
        stats["probes"]["batch_vs_solo_xl"] = 1
        if r["solo"]["dE"] > tol["consistency_solo_dE"] or r["solo"]["dF"] > tol["consistency_solo_dF"]:
            failures.append(core.fail("xl-depends-on-batch-mates", f"{tag}: XL energy/forces at P = D of a molecule in the (zero-padded) batch differ from those of the same molecule alone by {r['solo']['dE']:.3e} eV / {r['solo']['dF']:.3e} eV/A"))
    sig = ["consistency", record["batch"], record["method"], record["k"], record["rank"]]
    return core.Result.make(record, failures, stats, sig=sig, nontrivial=True, sample={"case": record, "result": r}, digest_=core.digest({k: round(v, 9) for k, v in r.items() if isinstance(v, float)}))


# ----------------------------------------------------------------------------------------------
# layer 4: dt scaling on the real driver


def _scaling(record, root):
    tol = core.tolerances()["C09"]
    failures, stats = [], {"probes": {"scaling_families": 1}, "max": {}}
    base = {
        "driver": "real",
        "batch": record["batch"],
        "rotate": record["rotate"],
        "temp": 400.0,
        "seed": record["seed"],
        "scf_eps": 1e-10,
        "reuse_P": True,
        "remove_com": None,
    }
    eng = record["engine"]
    dt0, S0 = record["dt"], record["steps"]

    def run(name, engine, f, extra=None):
        c = dict(base, engine=engine, dt=dt0 / f, steps=S0 * f)
        c["out"] = {"molid": [0], "print": 0, "ckpt": 0, "xyz": 0, "h5": {"data": f, "coordinates": f, "velocities": 0, "forces": 0}}
        if engine in ("xl", "ksa", "exc_xl", "xl_esmd"):
            c["k"] = record["k"]
        if engine in ("exc_basic", "exc_xl", "xl_esmd"):
            c.update(n_states=3, active_state=int(record.get("active_state", 1)))
        if engine == "exc_xl":
            # excited-state XL-BOMD re-converges SCF and CIS at every step to its own (loose, 1e-5 / 1e-4) defaults,
            # which would put a 2e-4 eV noise floor under the fluctuations: tighten them for the order measurement
            c["xl_extra"] = {"scf_eps": 1e-10, "es_eps": 1e-8}
        if engine == "ksa":
            c["max_rank"] = record.get("rank", 2)
            if record.get("T_el"):
                c["T_el"] = record["T_el"]  # hot electrons: fractional occupations, the electronic entropy enters the shadow energy
        c.update(extra or {})
        d = os.path.join(root, name)
        os.makedirs(d)
        r = mdsim.run_incarnation(c, d, 0, None, "fresh", {"io_seam": False}, timeout=2400)
        if r["status"] != 0:
            return None, r
        data, _ = mdsim.dump_files(d, c)
        return data, r

    ref, r = run("bomd", "exc_basic" if eng in ("exc_xl", "xl_esmd") else "basic", 16)
    if ref is None:
        raise core.HarnessError(f"BOMD reference failed: {r.get('exc')}")
    xref = ref["0:h5:coordinates/values"]
    fl, dist = [], []
    for f in (1, 2, 4):
        d, r = run(f"xl{f}", eng, f)
        if d is None:
            failures.append(core.fail("run-failed", f"{eng} k={record['k']} dt={dt0 / f} raised {r.get('exc')}"))
            return core.Result.make(record, failures, stats, sig=None, nontrivial=False)
        E = d["0:h5:data/thermo/Ek"] + d["0:h5:data/thermo/Ep"]
        if record.get("skip_fs"):
            # hot-electron families: the run starts from the zero-temperature SCF density, the first few fs are a start-up
            # transient of the thermal occupations (not part of the dt-scaling statement)
            E = E[int(round(record["skip_fs"] / dt0)) :]
        fl.append(float(E.max() - E.min()))
        x = d["0:h5:coordinates/values"]
        dist.append(float(np.abs(x - xref).max()))
        if f == 1:
            n = len(E)
            slope = np.polyfit(np.arange(n), E, 1)[0]
            drift = abs(slope * n) / max(fl[0], 1e-300)
    lo, hi = tol["order_ratio"]
    r1, r2 = fl[0] / fl[1], fl[1] / fl[2]
    d1, d2 = dist[0] / dist[1], dist[1] / dist[2]
    tag = f"{eng} k={record['k']} {record['batch']} dt={dt0}" + (f" active_state={record['active_state']}" if record.get("active_state") else "")
    # committed known finding: production XL-ESMD on an excited state above the first one
    cls = {"site": "xlesmd-upper-state"} if (eng == "xl_esmd" and int(record.get("active_state", 1)) >= 2) else {"site": "other"}
    sfx = "" if cls["site"] == "other" else "_known_finding_xlesmd_upper_state"
    stats["max"]["scaling_fluct_dev_from_4" + sfx] = max(abs(r1 - 4), abs(r2 - 4))
    if not (record.get("T_el") and record["T_el"] > 1500):
        stats["max"]["scaling_dist_dev_from_4" + sfx] = max(abs(d1 - 4), abs(d2 - 4))
    stats["max"]["scaling_drift_over_fluct" + sfx] = drift
    if not (lo <= r1 <= hi and lo <= r2 <= hi):
        failures.append(core.fail("shadow-energy-order", f"{tag}: shadow-energy fluctuation at dt, dt/2, dt/4 = {fl} eV (ratios {r1:.2f}, {r2:.2f}); second order means 4", classify=cls))
    if record.get("T_el") and record["T_el"] > 1500:
        stats["probes"]["hot_electron_scaling_families"] = 1  # the T_el > 0 surface is not the T = 0 Born-Oppenheimer one: energy order only
    elif not (lo <= d1 <= hi and lo <= d2 <= hi):
        failures.append(core.fail("no-convergence-to-bomd", f"{tag}: distance to the Born-Oppenheimer trajectory at dt, dt/2, dt/4 = {dist} A (ratios {d1:.2f}, {d2:.2f}); expected 4", classify=cls))
    if drift > tol["drift_over_fluct"]:
        failures.append(core.fail("shadow-energy-drift", f"{tag}: shadow energy drifts by {drift:.2f} x its fluctuation amplitude over {S0} steps", classify=cls))
    sig = ["scaling", eng, record["k"], record["batch"]]
    stats["sim_time_fs"] = dt0 * S0 * 4
    return core.Result.make(record, failures, stats, sig=sig, nontrivial=True, sample={"case": record, "fluctuation_eV": fl, "distance_to_bomd_A": dist}, digest_=core.digest([fl, dist]))


def execute(record):
    root = core.make_scratch(f"c09-{record.get('i', 0)}-{core.digest(record)}")
    try:
        return {"recurrence": _recurrence, "restart": _restart, "reuse": _reuse, "consistency": _consistency, "scaling": _scaling}[record["layer"]](record, root)
    finally:
        shutil.rmtree(root, ignore_errors=True)


class C09(core.Check):
    prop = PROP
    level = "exploration"
    module = "dst.c09"
    budget = {"quick": 300, "thorough": 3000}
    per_task_timeout = 3000
    assumptions = [
        "stability is sampled over the response grid gamma in {-0.05, 0, 0.3, 0.6, 0.9, 0.99} with a history-consistent perturbation at every buffer phase; this samples the admissible range, it is not a root-locus proof",
        "frozen bounds: amplification <= 2, no growth beyond 1.05 x the early maximum, fixed point to 1e-12",
        "excited-state XL-BOMD / XL-ESMD: restart layer on the stub's synthetic transition densities (every k x phase); recurrence stability of the transition-density history is not analysed separately (same coefficient tables as the ground-state density)",
    ]

    def plan(self, tier, seed):
        recs = []
        N = 400 if tier == "quick" else 3000
        i = 0
        rng = core.rng_for(seed, PROP)
        # layer 1 and 2: the k x phase (x gamma x variant) space is enumerated completely
        for eng in ("xl", "ksa"):
            for k in range(3, 10):
                for phase in range(k + 1):
                    for g in GAMMAS:
                        recs.append({"i": i, "layer": "recurrence", "engine": eng, "k": k, "phase": phase, "gamma": g, "N": N, "seed": rng.randrange(1 << 30)})
                        i += 1
        for eng in ("xl", "ksa", "xl_damp", "exc_xl", "xl_esmd"):
            for k in range(3, 10):
                for phase in range(k + 1):
                    rec = {"i": i, "layer": "restart", "engine": eng, "k": k, "phase": phase, "crash": rng.choice(["soft", "hard"]), "seed": rng.randrange(1 << 20)}
                    recs.append(rec)
                    i += 1
        for eng in ("xl", "ksa", "xl_damp", "exc_xl", "xl_esmd"):
            for k in range(3, 10):
                recs.append({"i": i, "layer": "reuse", "engine": eng, "k": k, "batch": rng.choice([["h2o"], ["h2o", "h2"], ["nh3"]]), "pre_steps": rng.randint(1, 2 * k + 3), "seed": rng.randrange(1 << 20)})
                i += 1
        ncons = 40 if tier == "quick" else 400
        for _ in range(ncons):
            rank = rng.choice([0, 0, 1, 2, 3, 4])
            recs.append(
                {
                    "i": i,
                    "layer": "consistency",
                    "batch": rng.choice([["h2o"], ["nh3"], ["h2co"], ["ch4", "h2o"], ["hf", "hf"], ["c2h4"], ["c2h4", "h2o"], ["h2co", "h2"], ["ch4", "nh3", "hf"]]),
                    "method": rng.choice(["AM1", "PM3", "MNDO"]),
                    "k": rng.randint(3, 9),
                    "rank": rank,
                    "T_el": rng.choice([300, 1500, 1500, 5000, 8000]) if rank else None,
                    "rotate": rng.randrange(1 << 30),
                }
            )
            i += 1
        rm = core.rng_for(seed, PROP, "moved")
        for _ in range(16 if tier == "quick" else 160):
            rank = rm.choice([0, 0, 1, 2, 3])
            recs.append(
                {
                    "i": i,
                    "layer": "consistency",
                    "batch": rm.choice([["h2o"], ["nh3"], ["h2co"], ["ch4", "h2o"], ["c2h4"], ["h2co", "h2o"]]),
                    "method": rm.choice(["AM1", "PM3", "MNDO"]),
                    "k": rm.randint(3, 9),
                    "rank": rank,
                    "T_el": rm.choice([300, 1500]) if rank else None,
                    "rotate": rm.randrange(1 << 30),
                    "moved": {"sigma": rm.choice([0.01, 0.03]), "learned": rm.random() < 0.5, "cutoff": rm.random() < 0.4},
                }
            )
            i += 1
        fams = [("xl", 5), ("ksa", 6)] if tier == "quick" else [("xl", 3), ("xl", 4), ("xl", 5), ("xl", 6), ("xl", 7), ("xl", 8), ("xl", 9), ("ksa", 4), ("ksa", 6), ("ksa", 9)]
        for eng, k in fams:
            for batch in ([["h2o"]] if tier == "quick" else [["h2o"], ["h2co"]]):
                recs.append({"i": i, "layer": "scaling", "engine": eng, "k": k, "batch": batch, "rotate": rng.randrange(1 << 30), "seed": rng.randrange(1 << 20), "dt": 0.4, "steps": 40, "rank": 2})
                i += 1
        # hot electrons (KSA, T_el 10000 K): the reported potential must be the free energy whose gradient drives the nuclei
        recs.append({"i": i, "layer": "scaling", "engine": "ksa", "k": 5, "batch": ["h2co"], "rotate": rm.randrange(1 << 30), "seed": rm.randrange(1 << 20), "dt": 0.4, "steps": 30, "rank": 2, "T_el": 10000, "skip_fs": 4.0})
        i += 1
        # pinned known finding: XL-ESMD on the SECOND excited state (short family)
        recs.append({"i": i, "layer": "scaling", "engine": "xl_esmd", "k": 5, "batch": ["h2co"], "rotate": 4711, "seed": 99, "dt": 0.4, "steps": 16, "rank": 2, "active_state": 2})
        i += 1
        if tier != "quick":
            recs.append({"i": i, "layer": "scaling", "engine": "exc_xl", "k": 5, "batch": ["h2co"], "rotate": rng.randrange(1 << 30), "seed": rng.randrange(1 << 20), "dt": 0.4, "steps": 24, "rank": 2, "active_state": 2})
            i += 1
        # excited-state surfaces (formaldehyde, state 1 of 3): XL-ESMD and excited-state XL-BOMD against excited-state BOMD
        for eng, k in ([("xl_esmd", 5)] if tier == "quick" else [("xl_esmd", 5), ("xl_esmd", 8), ("exc_xl", 5), ("exc_xl", 3)]):
            recs.append({"i": i, "layer": "scaling", "engine": eng, "k": k, "batch": ["h2co"], "rotate": rng.randrange(1 << 30), "seed": rng.randrange(1 << 20), "dt": 0.4, "steps": 24, "rank": 2})
            i += 1
        # expensive families first so that they overlap with the many cheap cases
        recs.sort(key=lambda r: 0 if r["layer"] == "scaling" else 1)
        return recs

    def shrink_candidates(self, rec):
        out = []
        if rec["layer"] == "recurrence" and rec["N"] > 50:
            out.append(dict(rec, N=rec["N"] // 2))
        if rec["layer"] == "consistency" and len(rec["batch"]) > 1:
            out.append(dict(rec, batch=rec["batch"][:1]))
        return out

    def coverage(self, results, tier):
        sigs, stats, layers = set(), {}, {}
        for r in results:
            core.merge_counts(stats, r["stats"])
            if r["sig"] is not None:
                sigs.add(json.dumps(r["sig"]))
                layers[r["sig"][0]] = layers.get(r["sig"][0], 0) + 1
        rec_cases = {json.dumps(r["sig"][1:4]) for r in results if r["sig"] and r["sig"][0] == "recurrence"}
        rs_cases = {json.dumps(r["sig"][1:4]) for r in results if r["sig"] and r["sig"][0] == "restart"}
        samples = []
        for layer in ("recurrence", "restart", "reuse", "consistency", "scaling"):
            samples += [r["sample"] for r in results if r.get("sample") and r["record"]["layer"] == layer][:1]
        return {
            "evaluations": len(results),
            "distinct_nontrivial": len(sigs),
            "rule": "recurrence layer: every (engine in {XL, Krylov}, k in 3..9, buffer phase in 0..k, gamma in grid) once - exhaustive over k x phase; restart layer: every (engine in {XL, Krylov, damped XL}, k, resume phase) once - exhaustive; consistency and scaling layers: seeded samples on real SEQM. Every case is non-trivial (a perturbation, a crash or a real evaluation occurs); distinct = distinct case tuples",
            "samples": samples,
            "layers": layers,
            "k_phase_cells_recurrence": len(rec_cases),
            "k_phase_cells_expected": 2 * sum(k + 1 for k in range(3, 10)),
            "k_phase_cells_restart": len(rs_cases),
            "k_phase_exhaustive": len(rec_cases) == 2 * sum(k + 1 for k in range(3, 10)) and len(rs_cases) == 3 * sum(k + 1 for k in range(3, 10)),
            "worst_observed": stats.get("max", {}),
            "tolerances_used": core.tolerances()["C09"],
            "probes": stats.get("probes", {}),
            "simulated_time_fs": stats.get("sim_time_fs", 0),
            "components": {"real": ["XL_BOMD/KSA_XL_BOMD one_step, _propagate_P, coefficient tables, initialize, checkpoint/resume history reconstruction", "Electronic_Structure dm_prop='XL-BOMD' (EnergyXL, ForceXL) in the consistency and scaling layers"], "stub": ["density response D(P) = D* + gamma (P - D*) in the recurrence and restart layers"]},
        }


def main(argv=None):
    return core.main(C09(), argv)
