"""C16 - CIS/RPA excited states are true eigenpairs of the response problem.

What the simulator owns: the iterative solver's HISTORY (amplitudes and orbitals carried along a
sequence of neighbouring geometries on one Molecule object, guess reuse on/off), FAULTS on that
carried state (noise, stale by two geometries, permuted order, a higher state's vector in a lower
slot, duplicated vector) and the ENVIRONMENT PROBE (available memory, which sets the Davidson
subspace limit and the chunking of the sigma build).  Reference model: the dense response matrix
obtained by applying the code's own sigma routine to unit vectors, then torch.linalg.eigh.
"""
import json
import math
import os
import shutil

import numpy as np

from . import core, mdsim, scfsim

PROP = "C16"
MOLS = {"h2o": 8, "nh3": 12, "ch4": 16, "h2co": 24, "hcn": 20, "hf": 4, "c2h4": 36}


def _child(rec):
    import warnings

    import torch

    import seqm.seqm_functions.rcis_batch as RB
    from seqm.ElectronicStructure import Electronic_Structure
    from seqm.Molecule import Molecule
    from seqm.seqm_functions.constants import Constants

    from . import repo

    torch.set_num_threads(1)
    torch.set_default_dtype(torch.float64)
    warnings.simplefilter("ignore")
    names = rec["batch"]
    rpa = rec["exc"] == "rpa"
    cfg = {"batch": names, "rotate": rec["rotate"], "distort": rec.get("distort", 0.03), "geom_seed": rec["seed"]}
    sp_np, xyz_np = mdsim.build_batch(cfg)
    if rec.get("first_perfect"):
        # symmetric (degenerate) first member next to distorted copies: the degeneracy handling of the start
        # space is batch-global
        _, xyz0 = mdsim.build_batch(dict(cfg, distort=0.0))
        xyz_np[0] = xyz0[0]
    species = torch.as_tensor(sp_np, dtype=torch.int64)
    g = torch.Generator().manual_seed(rec["seed"] % (1 << 62))
    homogeneous = len(set(names)) == 1

    window, n_states = None, rec["n_states"]
    if rec.get("window"):
        # active orbital window (n below the HOMO incl., m above the LUMO incl.), as fractions of the occupied/virtual counts
        probe = Molecule(Constants(), {"method": rec["method"], "scf_eps": 1e-10, "scf_converger": [1]}, torch.as_tensor(xyz_np), species)
        nocc, nvirt = int(probe.nocc[0]), int(probe.norb[0] - probe.nocc[0])
        window = (max(1, round(rec["window"][0] * nocc)), max(1, round(rec["window"][1] * nvirt)))
        n_states = max(1, min(n_states, window[0] * window[1]))

    def settings():
        exc = {"n_states": n_states, "method": rec["exc"], "tolerance": rec["tol"], "make_best_guess": rec["best_guess"]}
        if window is not None:
            exc["orbital_window"] = window
        if rec.get("max_iter"):
            exc["max_iter"] = rec["max_iter"]  # iteration cap of the uniform-batch CIS Davidson (knob)
        return {"method": rec["method"], "scf_eps": scf_eps, "scf_converger": [1], "excited_states": exc}

    # the SCF threshold the CALLER writes down: tight by default; in the loose-threshold stratum an MD-style value that is
    # looser than the excited-state tolerance (the library then has to tighten it itself)
    scf_eps = rec.get("user_scf_eps") or 1e-10
    sp = settings()
    mol = Molecule(Constants(), sp, torch.as_tensor(xyz_np), species)
    mol.verbose = False
    es = Electronic_Structure(sp)
    if rec.get("mem"):
        repo.set_available_memory(rec["mem"])

    def dense_for(m):
        """Dense A (and B) of a homogeneous molecule object via the code's own sigma routine."""
        nocc, nvirt, Cocc, Cvirt, ea_ei = RB.get_occ_virt(m, None, m.e_mo)
        if window is not None:
            # the documented window, cut out here independently of the library's own index arithmetic:
            # the n highest occupied and the m lowest virtual orbitals
            nb, ma = window
            Cocc, Cvirt = Cocc[:, :, nocc - nb :], Cvirt[:, :, :ma]
            ea_ei = ea_ei[:, nocc - nb :, :ma]
            nocc, nvirt = nb, ma
        nov = nocc * nvirt
        V = torch.eye(nov).unsqueeze(0).expand(m.nmol, nov, nov).contiguous()
        repo.set_available_memory(8 * 1024**3)
        try:
            if rpa:
                A, B = RB.matrix_vector_product_batched(m, V, m.w, ea_ei, Cocc, Cvirt, makeB=True)
            else:
                A, B = RB.matrix_vector_product_batched(m, V, m.w, ea_ei, Cocc, Cvirt), None
        finally:
            if rec.get("mem"):
                repo.set_available_memory(rec["mem"])
        asym = float((A - A.transpose(1, 2)).abs().max())
        A = 0.5 * (A + A.transpose(1, 2))
        cis = torch.linalg.eigvalsh(A)
        if rpa:
            B = 0.5 * (B + B.transpose(1, 2))
            AmB, ApB = A - B, A + B
            e, v = torch.linalg.eigh(AmB)
            if (e <= 0).any():
                return {"unstable": True}
            s = v @ torch.diag_embed(e.sqrt()) @ v.transpose(1, 2)
            w2 = torch.linalg.eigvalsh(s @ ApB @ s)
            if (w2 <= 0).any():
                return {"unstable": True}
            om = w2.sqrt()
        else:
            om = cis
        return {"A": A, "B": B, "omega": om, "cis": cis, "asym": asym, "nov": nov}

    out = []
    hist = []  # carried amplitudes of earlier solves
    for op in rec["ops"]:
        if op["op"] == "MOVE":
            with torch.no_grad():
                mol.coordinates.add_(op["sigma"] * torch.randn(mol.coordinates.shape, generator=g) * (species > 0).unsqueeze(-1))
            continue
        start = op["start"]
        amp = mol.cis_amplitudes if torch.is_tensor(mol.cis_amplitudes) else None
        if start == "fresh" or amp is None:
            cis_amp = None
            start_eff = "fresh"
        else:
            cis_amp = amp.clone()
            start_eff = start
            n = cis_amp.shape[-2]

            def orthonormal(a):
                # a valid starting guess is any orthonormal set: re-orthonormalise the faulted vectors
                q, _ = torch.linalg.qr(a.transpose(-1, -2))
                return q.transpose(-1, -2).contiguous()

            if start == "noise":
                cis_amp = orthonormal(cis_amp + op.get("sigma", 0.1) * torch.randn(cis_amp.shape, generator=g))
            elif start == "stale" and len(hist) >= 2 and hist[-2].shape == cis_amp.shape:
                cis_amp = hist[-2].clone()
            elif start == "permute" and n > 1:
                perm = torch.randperm(n, generator=g)
                cis_amp = cis_amp[..., perm, :]
            elif start == "replace-one":
                j = int(torch.randint(0, n, (1,), generator=g))
                cis_amp[..., j, :] = torch.randn(cis_amp[..., j, :].shape, generator=g)
                cis_amp = orthonormal(cis_amp)
        entry = {"start": start_eff}
        try:
            es(mol, P0=mol.dm, cis_amp=cis_amp)
        except Exception as e:  # noqa: BLE001
            entry["exc"] = f"{type(e).__name__}: {str(e)[:200]}"
            out.append(entry)
            mol.cis_amplitudes = None
            continue
        E = mol.cis_energies.detach().clone()
        X = mol.cis_amplitudes.detach().clone()
        hist.append(X.clone())
        entry["energies"] = E.tolist()
        entry["nroots"] = E.shape[1]
        entry["scf_notconverged"] = es.notconverged.tolist()
        res = []
        for i in range(len(names)):
            if homogeneous:
                if i == 0:
                    D = dense_for(mol)
                d = D
                idx = i
            else:
                # mixed batch (rcis_any_batch path): per-molecule reference from a solo solve at the same geometry
                nat = int((species[i] > 0).sum())
                sp1 = settings()
                sp1["excited_states"]["n_states"] = 1
                m1 = Molecule(Constants(), sp1, mol.coordinates.detach()[i : i + 1, :nat].clone(), species[i : i + 1, :nat])
                m1.verbose = False
                Electronic_Structure(sp1)(m1)
                d = dense_for(m1)
                idx = 0
            if d.get("unstable"):
                res.append({"unstable": True})
                continue
            n = E.shape[1]
            om = d["omega"][idx]
            r = {"nov": d["nov"], "asym": d["asym"]}
            e_i = E[i][: min(n, d["nov"])]
            if not homogeneous:
                # the mixed-batch solver pads molecules that needed fewer (degeneracy-expanded) roots with zeros
                e_i = e_i[: max(n_states, int((e_i != 0).sum()))]
            r["dE"] = float((e_i - om[: len(e_i)]).abs().max())
            # distance of every returned energy to the NEAREST eigenvalue of the dense matrix (are they eigenvalues at all?)
            r["eig_dist"] = float((e_i.unsqueeze(1) - om.unsqueeze(0)).abs().min(dim=1).values.max())
            r["ascending"] = bool((e_i[1:] >= e_i[:-1] - 1e-12).all())
            r["positive"] = bool((e_i > 0).all())
            r["rpa_minus_cis"] = float((e_i - d["cis"][idx][: len(e_i)]).max()) if rpa else None
            if homogeneous:
                A = d["A"][i]
                if not rpa:
                    x = X[i][: len(e_i)]
                    r["orth"] = float((x @ x.T - torch.eye(len(e_i))).abs().max())
                    r["resid"] = float((x @ A - e_i.unsqueeze(1) * x).norm(dim=1).max())
                else:
                    B = d["B"][i]
                    x, y = X[0, i][: len(e_i)], X[1, i][: len(e_i)]
                    r["orth"] = float((x @ x.T - y @ y.T - torch.eye(len(e_i))).abs().max())
                    r1 = x @ A + y @ B - e_i.unsqueeze(1) * x
                    r2 = x @ B + y @ A + e_i.unsqueeze(1) * y
                    r["resid"] = float(torch.maximum(r1.norm(dim=1), r2.norm(dim=1)).max())
            # near-degeneracy at the cut: the n-th and (n+1)-th dense eigenvalues
            r["cut_gap"] = float(om[len(e_i)] - om[len(e_i) - 1]) if len(e_i) < len(om) else float("inf")
            res.append(r)
        entry["res"] = res
        if (rec.get("user_scf_eps") or (window is not None and len(out) > 0)) and homogeneous:
            # the same geometry with a tightly converged ground state (new objects): the excitation energies are those of
            # the CONVERGED orbitals, whatever SCF threshold the caller happened to write down
            spt = settings()
            spt["scf_eps"] = 1e-10
            mt = Molecule(Constants(), spt, mol.coordinates.detach().clone(), species)
            mt.verbose = False
            try:
                Electronic_Structure(spt)(mt)
                k = min(E.shape[1], mt.cis_energies.shape[1], n_states)
                entry["dE_tight"] = (E[:, :k] - mt.cis_energies.detach()[:, :k]).abs().amax(dim=1).tolist()
            except Exception as e:  # noqa: BLE001
                entry["dE_tight_exc"] = f"{type(e).__name__}: {str(e)[:120]}"
        out.append(entry)
    return out


def gen(rng, tier):
    u = rng.random()
    if u < 0.75:
        name = rng.choice(list(MOLS))
        batch = [name] * rng.choice([1, 1, 2, 3])
        exc = rng.choice(["cis", "cis", "rpa"])
    else:
        batch = rng.sample(["h2o", "nh3", "ch4", "h2co", "hcn"], rng.choice([2, 3]))
        exc = "cis"
    nov = min(MOLS[b] for b in batch)
    n_states = rng.randint(1, min(nov, 10 if tier == "quick" else 14))
    tol = rng.choice([1e-5, 1e-6, 1e-7, 1e-8])
    rec = {"batch": batch, "method": rng.choice(["AM1", "AM1", "PM3", "MNDO"]), "exc": exc, "n_states": n_states, "tol": tol, "best_guess": rng.random() < 0.7, "rotate": rng.randrange(1 << 30), "seed": rng.randrange(1 << 40)}
    if len(set(batch)) == 1 and exc == "cis" and rng.random() < 0.5:
        # available memory such that the Davidson subspace limit lies between 2*nroots+2 and the full space
        lo = min(nov, 2 * n_states + 3 + rng.randint(0, 4))
        S = rng.randint(lo, nov)
        nbig = 3 if exc == "rpa" else 2
        rec["mem"] = int(S * nov * len(batch) * 8 * nbig / 0.4) + 1
        rec["subspace_limit"] = S
    if len(set(batch)) == 1 and exc == "cis" and "mem" not in rec and rng.random() < 0.3:
        # restricted active space (documented `orbital_window`; needs uniform occupied/virtual counts)
        rec["window"] = [rng.choice([0.3, 0.5, 0.75, 1.0]), rng.choice([0.3, 0.5, 0.75, 1.0])]
    if len(set(batch)) == 1 and exc == "cis" and rng.random() < 0.2:
        # iteration cap as a knob (documented `max_iter`): a solve that hits it must say so, never hand back
        # unconverged states
        rec["max_iter"] = rng.choice([1, 2, 3, 4, 6, 9, 15])
    # symmetric molecules with exactly degenerate states: undistorted geometry, or a perfect first member
    u2 = rng.random()
    if u2 < 0.15:
        rec["distort"] = 0.0
    elif u2 < 0.3 and len(batch) > 1:
        rec["first_perfect"] = True
    if len(set(batch)) == 1 and "window" not in rec and rng.random() < 0.2:
        rec["user_scf_eps"] = rng.choice([1e-4, 1e-5, 1e-6])
    ops = [{"op": "SOLVE", "start": "fresh"}]
    for _ in range(rng.randint(1, 5)):
        ops.append({"op": "MOVE", "sigma": rng.choice([0.005, 0.02, 0.05])})
        if rng.random() < 0.3:
            ops.append({"op": "MOVE", "sigma": 0.02})
        # guess reuse is implemented for homogeneous CIS batches only (the mixed-batch solver and RPA reject or
        # mis-shape a supplied guess loudly); elsewhere the history acts through the carried density and orbitals
        if exc == "cis" and len(set(batch)) == 1:
            start = rng.choice(["reuse", "reuse", "reuse", "fresh", "noise", "stale", "permute", "replace-one"])
        else:
            start = "fresh"
        ops.append({"op": "SOLVE", "start": start, "sigma": rng.choice([0.01, 0.1, 1.0])})
    rec["ops"] = ops
    return rec


KNOWN_SKIPPED_ROOT_SESSION = json.loads('{"batch": ["hf", "hf", "hf"], "method": "PM3", "exc": "rpa", "n_states": 2, "tol": 1e-08, "best_guess": false, "rotate": 633039849, "seed": 853966449860, "ops": [{"op": "SOLVE", "start": "fresh"}, {"op": "MOVE", "sigma": 0.02}, {"op": "SOLVE", "start": "fresh", "sigma": 0.01}, {"op": "MOVE", "sigma": 0.02}, {"op": "SOLVE", "start": "fresh", "sigma": 0.1}, {"op": "MOVE", "sigma": 0.05}, {"op": "MOVE", "sigma": 0.02}, {"op": "SOLVE", "start": "fresh", "sigma": 1.0}, {"op": "MOVE", "sigma": 0.005}, {"op": "SOLVE", "start": "fresh", "sigma": 0.01}, {"op": "MOVE", "sigma": 0.005}, {"op": "MOVE", "sigma": 0.02}, {"op": "SOLVE", "start": "fresh", "sigma": 0.1}]}')


def execute(record):
    root = core.make_scratch(f"c16-{record.get('i', 0)}-{core.digest(record)}")
    try:
        return _execute(record, root)
    finally:
        shutil.rmtree(root, ignore_errors=True)


def _execute(record, root):
    tol = core.tolerances()["C16"]
    failures, stats = [], {"probes": {}, "solves": 0, "states_checked": 0, "max": {}}
    mx = stats["max"]
    st, payload = core.run_in_child(_child, (record,), timeout=1500, stdout_path=os.path.join(root, "out.txt"))
    if st != 0 or not payload or "ok" not in payload:
        failures.append(core.fail("session-died", f"the process running the excited-state session died: {str(payload)[:400]}"))
        return core.Result.make(record, failures, stats, sig=None, nontrivial=False)
    out = payload["ok"]
    if record.get("window"):
        stats["probes"]["orbital_window_sessions"] = 1
    t = record["tol"]
    names = record["batch"]
    for k, e in enumerate(out):
        tag = f"solve {k} batch={names} {record['method']} {record['exc']} n_states={record['n_states']} tol={t} best_guess={record['best_guess']} mem={record.get('subspace_limit')} start={e['start']}"
        stats["solves"] += 1
        if e.get("exc"):
            stats["probes"]["solves_that_raised"] = stats["probes"].get("solves_that_raised", 0) + 1
            honest_giveup = bool(record.get("subspace_limit") or record.get("max_iter")) and "Maximum iterations reached" in str(e["exc"])
            if honest_giveup:
                # injected fault active (available memory restricted -> subspace of ~10 vectors with collapses): a
                # restarted Davidson may stagnate from some starting vectors and says so loudly.  Under the fault an
                # operation may fail honestly; it may never return a wrong answer (all other oracles stay on).
                key = "honest_nonconvergence_under_memory_fault" if record.get("subspace_limit") else "honest_nonconvergence_at_iteration_cap"
                stats["probes"][key] = stats["probes"].get(key, 0) + 1
            elif e["start"] != "fresh" and not any(o.get("exc") for o in out[:k] if o["start"] == "fresh"):
                # the same request succeeds from a fresh start: the answer (here: success) depends on the carried state
                failures.append(core.fail("fails-with-carried-amplitudes", f"{tag}: raised {e['exc']} although the fresh-start solve of this session succeeded"))
            continue
        if any(e["scf_notconverged"]):
            continue
        if e.get("dE_tight") is not None:
            windowed_history = bool(record.get("window")) and k > 0
            key = "solves_compared_with_new_objects_window_and_history" if windowed_history else "solves_with_loose_user_scf_threshold"
            stats["probes"][key] = stats["probes"].get(key, 0) + 1
            for m, dv in enumerate(e["dE_tight"]):
                if not windowed_history:
                    mx["dE_vs_tightly_converged_scf_over_tol"] = max(mx.get("dE_vs_tightly_converged_scf_over_tol", 0.0), dv / t)
                if dv > tol["K_tight"] * t:
                    if windowed_history:
                        failures.append(core.fail("depends-on-molecule-history", f"{tag} orbital_window={record['window']}: molecule {m}: on a Molecule object that was solved before (at a neighbouring geometry) the excitation energies differ by {dv:.3e} eV from those of new objects at the same geometry", classify={"site": "orbital-window-on-reused-molecule"}))
                    else:
                        failures.append(core.fail("depends-on-user-scf-threshold", f"{tag} user scf_eps={record.get('user_scf_eps')}: molecule {m}: excitation energies differ by {dv:.3e} eV from those of the same geometry with a tightly converged ground state (bound {tol['K_tight']} x tolerance): they are not the eigenvalues of the matrix defined by the CONVERGED orbitals"))
                    break
        if e["start"] != "fresh":
            stats["probes"]["start_" + e["start"]] = stats["probes"].get("start_" + e["start"], 0) + 1
        for m, r in enumerate(e["res"]):
            if r.get("unstable"):
                stats["probes"]["unstable_reference_skipped"] = stats["probes"].get("unstable_reference_skipped", 0) + 1
                continue
            stats["states_checked"] += e["nroots"]
            mx["sigma_asymmetry"] = max(mx.get("sigma_asymmetry", 0.0), r["asym"])
            # a cut through a (near-)degenerate set makes "the lowest n" ambiguous at the level of the splitting
            slack = tol["K_dE"] * t + (r["cut_gap"] if r["cut_gap"] < 10 * t else 0.0)
            # known-finding signature: every returned energy IS an eigenvalue of the dense matrix (true, converged
            # eigenpairs) but a lower eigenvalue was skipped (symmetry-blocked Davidson guess space)
            skipped = r["dE"] > slack and r["eig_dist"] <= tol["K_dE"] * t and r.get("resid", 0.0) <= tol["K_resid"] * t
            cls = {"site": "davidson-skipped-root"} if skipped else {"site": "other"}
            if not skipped:
                mx["dE_over_tol"] = max(mx.get("dE_over_tol", 0.0), r["dE"] / t)
            else:
                stats["probes"]["skipped_root_cases"] = stats["probes"].get("skipped_root_cases", 0) + 1
            if r["dE"] > slack:
                failures.append(core.fail("not-the-lowest-eigenvalues", f"{tag}: molecule {m} ({names[m]}): returned energies deviate from the lowest {e['nroots']} eigenvalues of the dense response matrix by {r['dE']:.3e} eV (bound {slack:.1e}; distance to the nearest dense eigenvalues {r['eig_dist']:.1e}); energies {[round(x, 6) for x in e['energies'][m]]}", classify=cls))
            if not r["ascending"]:
                failures.append(core.fail("not-ascending", f"{tag}: molecule {m}: energies not in ascending order {e['energies'][m]}"))
            if not r["positive"]:
                failures.append(core.fail("not-positive", f"{tag}: molecule {m}: non-positive excitation energy for a stable reference {e['energies'][m]}"))
            if "orth" in r:
                mx["orthonormality"] = max(mx.get("orthonormality", 0.0), r["orth"])
                mx["residual_over_tol"] = max(mx.get("residual_over_tol", 0.0), r["resid"] / t)
                if r["orth"] > tol["orth"]:
                    failures.append(core.fail("not-orthonormal", f"{tag}: molecule {m}: amplitudes deviate from orthonormality by {r['orth']:.3e}"))
                if r["resid"] > tol["K_resid"] * t:
                    failures.append(core.fail("residual-above-tolerance", f"{tag}: molecule {m}: eigen-residual {r['resid']:.3e} exceeds {tol['K_resid']} x the requested tolerance {t}"))
            if r["rpa_minus_cis"] is not None:
                if not skipped:
                    mx["rpa_minus_cis"] = max(mx.get("rpa_minus_cis", -1.0), r["rpa_minus_cis"])
                if r["rpa_minus_cis"] > tol["K_dE"] * t:
                    failures.append(core.fail("rpa-above-cis", f"{tag}: molecule {m}: an RPA energy exceeds the corresponding CIS energy by {r['rpa_minus_cis']:.3e} eV", classify=cls))
    if record.get("mem"):
        stats["probes"]["restricted_memory_sessions"] = 1
    if len(set(names)) > 1:
        stats["probes"]["mixed_batch_sessions"] = 1
    if record.get("distort") == 0.0 or record.get("first_perfect"):
        stats["probes"]["exactly_symmetric_start_geometries"] = 1
    sig = [names, record["method"], record["exc"], record["n_states"], record["tol"], record["best_guess"], record.get("subspace_limit"), [o.get("start") for o in record["ops"] if o["op"] == "SOLVE"]]
    sample = {"session": record, "solves": [{"start": e["start"], "exc": e.get("exc"), "nroots": e.get("nroots"), "energies": (e.get("energies") or [[]])[0][:4]} for e in out]}
    dig = core.digest([[e.get("exc"), [[round(x, 8) for x in row] for row in (e.get("energies") or [])]] for e in out])
    return core.Result.make(record, failures, stats, sig=sig, nontrivial=len(out) >= 2, sample=sample, digest_=dig)


class C16(core.Check):
    prop = PROP
    level = "exploration"
    module = "dst.c16"
    budget = {"quick": 200, "thorough": 1700}
    runs = {"quick": 300, "thorough": 5000}
    assumptions = [
        "the reference matrix is built with the code's own sigma routine (that the operator is the published one is C06 territory, not applicable); molecules with n_occ x n_virt <= 36",
        "available memory is a simulator-chosen value behind the psutil seam; starvation below 2 x n_states + 3 subspace vectors is outside the generated range (the library fails loudly there)",
        "a request that cuts through a (near-)degenerate set is compared with slack equal to the splitting",
    ]

    def vacuous(self, results):
        stats = {}
        for r in results:
            core.merge_counts(stats, r["stats"])
        raised = stats.get("probes", {}).get("solves_that_raised", 0)
        total = stats.get("solves", 0)
        if total and raised > 0.2 * total:
            return f"{raised} of {total} excited-state solves raised an exception"
        return None

    def plan(self, tier, seed):
        recs = [dict(gen(core.rng_for(seed, PROP, i), tier), i=i) for i in range(self.runs[tier])]
        # one fixed session that reproduces the committed known finding (symmetry-blocked root, HF / RPA)
        recs[0] = dict(KNOWN_SKIPPED_ROOT_SESSION, i=0)
        # record 1: pinned session of DESIGN section 6 item 47 (water, orbital window with nov = norb = 6, carried amplitudes,
        # make_best_guess off): found by the seed-4242 thorough soak, repaired by adb73ae
        recs[1] = {"batch": ["h2o", "h2o"], "method": "MNDO", "exc": "cis", "n_states": 8, "tol": 1e-06, "best_guess": False, "rotate": 675678892, "seed": 250247097275, "window": [0.75, 1.0], "i": 1, "ops": [{"op": "SOLVE", "start": "fresh"}, {"op": "MOVE", "sigma": 0.05}, {"op": "SOLVE", "start": "reuse", "sigma": 0.1}]}
        return recs

    def shrink_candidates(self, rec):
        out = []
        ops = rec["ops"]
        for j in range(1, len(ops)):
            out.append(dict(rec, ops=ops[:j] + ops[j + 1 :]))
        if len(rec["batch"]) > 1:
            out.append(dict(rec, batch=rec["batch"][:1]))
        if rec.get("mem"):
            r = dict(rec)
            r.pop("mem")
            r.pop("subspace_limit", None)
            out.append(r)
        if rec["n_states"] > 1:
            out.append(dict(rec, n_states=rec["n_states"] - 1))
        return out

    def coverage(self, results, tier):
        sigs, stats = set(), {}
        for r in results:
            core.merge_counts(stats, r["stats"])
            if r["sig"] is not None and r["nontrivial"]:
                sigs.add(json.dumps(r["sig"]))
        return {
            "evaluations": len(results),
            "distinct_nontrivial": len(sigs),
            "rule": "one evaluation = one seeded excited-state session (homogeneous batch of 1-3 displaced copies or a mixed batch; CIS or RPA; n_states 1..14; tolerance; guess reuse on/off; available memory placing the Davidson subspace limit between 2n+3 and the full space; 2-6 solves along neighbouring geometries with fresh / reused / noisy / stale / permuted / duplicated / high-in-low-slot start amplitudes), every solve compared with the dense reference; non-trivial = at least two solves; distinct = distinct session tuples",
            "samples": [r["sample"] for r in results if r.get("sample")][:3],
            "solves": stats.get("solves", 0),
            "states_checked": stats.get("states_checked", 0),
            "probes": stats.get("probes", {}),
            "worst_observed": stats.get("max", {}),
            "tolerances_used": core.tolerances()["C16"],
            "components": {"real": ["Electronic_Structure.forward, rcis_batch (Davidson, sigma build, chunking, best-guess reuse, phase alignment), rpa, rcis_any_batch"], "stub": ["psutil.virtual_memory (simulator-chosen available memory)"]},
        }


def main(argv=None):
    return core.main(C16(), argv)
