"""Simulator core: seed derivation, fork pool, violation handling, shrinking, evidence, known findings."""
import concurrent.futures as cf
import faulthandler
import hashlib
import json
import multiprocessing
import os
import random
import shutil
import signal
import sys
import time
import traceback

VERIF = os.path.dirname(os.path.dirname(os.path.abspath(__file__)))
# Runs against a scratch copy of the repository (sensitivity mutants, VERIF_REPO=<copy>) must never overwrite the
# evidence of the real tree: their evidence and replay files go to a scratch directory instead.
_FOREIGN = os.path.realpath(os.environ.get("VERIF_REPO", "/repo")) != os.path.realpath("/repo")
_OUT = os.environ.get("VERIF_OUT") or (os.path.join("/tmp/scratch", "dst-out-" + os.path.basename(os.path.realpath(os.environ["VERIF_REPO"]))) if _FOREIGN else VERIF)
EVIDENCE_DIR = os.path.join(_OUT, "evidence")
REPLAY_DIR = os.path.join(_OUT, "replays")
KNOWN_FINDINGS = os.path.join(VERIF, "known_findings.json")
TOLERANCES = os.path.join(VERIF, "dst", "tolerances.json")

EXIT_OK, EXIT_VIOLATION, EXIT_HARNESS = 0, 1, 2


class HarnessError(Exception):
    """The machinery itself failed (never reported as a property violation)."""


def h64(*parts):
    """One integer decides everything: derive sub-seeds by hashing (seed, labels...)."""
    m = hashlib.sha256(repr(parts).encode()).digest()
    return int.from_bytes(m[:8], "big")


def rng_for(*parts):
    return random.Random(h64(*parts))


def digest(obj):
    return hashlib.sha256(json.dumps(obj, sort_keys=True, default=str).encode()).hexdigest()[:16]


def tolerances():
    with open(TOLERANCES) as fh:
        return json.load(fh)


def scratch_root():
    base = "/dev/shm" if os.path.isdir("/dev/shm") and os.access("/dev/shm", os.W_OK) else None
    if base is None:
        base = os.environ.get("TMPDIR", "/tmp")
    return base


def shared_dir():
    """Per-invocation directory shared by all workers (reference-run caches); removed by main()."""
    d = os.path.join(scratch_root(), f"pyseqm-dst-shared-{os.environ.get('VERIF_RUN_ID', os.getpid())}")
    os.makedirs(d, exist_ok=True)
    return d


def make_scratch(tag):
    d = os.path.join(scratch_root(), f"pyseqm-dst-{os.getpid()}-{tag}")
    shutil.rmtree(d, ignore_errors=True)
    os.makedirs(d)
    return d


# --------------------------------------------------------------------------------------
# verdict helpers used by the checks


def fail(oracle, msg, **detail):
    return {"oracle": oracle, "msg": msg, "detail": detail}


class Result(dict):
    """What one simulated run returns: record (replayable input), failures, stats, signature."""

    @staticmethod
    def make(record, failures=(), stats=None, sig=None, nontrivial=True, sample=None, digest_=None):
        return Result(
            record=record,
            failures=list(failures),
            stats=stats or {},
            sig=sig,
            nontrivial=bool(nontrivial),
            sample=sample,
            digest=digest_,
        )


# --------------------------------------------------------------------------------------
# fork pool


def _worker_init():
    # Each worker is a zygote: imports torch + seqm from the working tree and never runs library
    # code itself except inside fork()ed children (mdsim) or, for stateless-per-task engines, directly.
    signal.signal(signal.SIGINT, signal.SIG_IGN)
    from . import repo

    repo.load()


def _worker_call(modname, fname, record):
    import importlib

    mod = importlib.import_module(modname)
    fn = getattr(mod, fname)
    t0 = time.time()
    try:
        res = fn(record)
    except HarnessError as e:
        return {"harness_error": f"{e}", "record": record, "wall": time.time() - t0}
    except BaseException as e:  # noqa: BLE001 - classify everything that is not a verdict as harness error
        return {
            "harness_error": f"{type(e).__name__}: {e}\n{traceback.format_exc()[-2000:]}",
            "record": record,
            "wall": time.time() - t0,
        }
    res["wall"] = time.time() - t0
    return res


def run_pool(modname, fname, records, workers=None, budget_s=None, per_task_timeout=900, progress=None):
    """Run fn(record) for every record on a fork pool. Returns (results in input order, skipped count)."""
    workers = workers or min(16, os.cpu_count() or 1)
    workers = int(os.environ.get("VERIF_WORKERS", workers))
    t0 = time.time()
    results = [None] * len(records)
    skipped = 0
    if workers <= 1 and os.environ.get("VERIF_INLINE") == "1":  # debugging only: no pool, no isolation
        _worker_init()
        for i, r in enumerate(records):
            if budget_s is not None and time.time() - t0 > budget_s:
                skipped += 1
                continue
            results[i] = _worker_call(modname, fname, r)
        return results, skipped
    ctx = multiprocessing.get_context("fork")
    faulthandler.dump_traceback_later(per_task_timeout + (budget_s or 0) + 600, exit=False)
    try:
        with cf.ProcessPoolExecutor(max_workers=workers, mp_context=ctx, initializer=_worker_init) as ex:
            pending = {}
            it = iter(enumerate(records))
            done_n = 0

            def submit_more():
                nonlocal skipped
                while len(pending) < workers * 2:
                    try:
                        i, r = next(it)
                    except StopIteration:
                        return
                    if budget_s is not None and time.time() - t0 > budget_s:
                        skipped += 1
                        continue
                    pending[ex.submit(_worker_call, modname, fname, r)] = i

            submit_more()
            while pending:
                done, _ = cf.wait(list(pending), timeout=per_task_timeout, return_when=cf.FIRST_COMPLETED)
                if not done:
                    for f in pending:
                        f.cancel()
                    _kill_children()
                    raise HarnessError(f"no task finished within {per_task_timeout}s (hang)")
                for f in done:
                    i = pending.pop(f)
                    try:
                        results[i] = f.result()
                    except BaseException as e:  # noqa: BLE001
                        results[i] = {"harness_error": f"worker died: {type(e).__name__}: {e}", "record": records[i]}
                    done_n += 1
                    if progress and done_n % progress == 0:
                        print(f"  .. {done_n}/{len(records)} runs, {time.time() - t0:.0f}s", flush=True)
                submit_more()
    finally:
        faulthandler.cancel_dump_traceback_later()
    return results, skipped


def _kill_children():
    try:
        import psutil

        me = psutil.Process()
        for c in me.children(recursive=True):
            try:
                c.kill()
            except Exception:
                pass
    except Exception:
        pass


def run_in_child(fn, args=(), timeout=600, stdout_path=None):
    """Run fn(*args) in a fork()ed child of this (pristine) process.

    Returns (status, payload): status is the exit code (0 ok, 3 python exception, 137 simulated hard
    kill, -9 watchdog kill = 'timeout'); payload is {"ok": value} / {"exc":..., "msg":..., "tb":...} / None.
    """
    import select

    r, w = os.pipe()
    sys.stdout.flush()
    sys.stderr.flush()
    pid = os.fork()
    if pid == 0:
        code = 0
        try:
            os.close(r)
            if stdout_path is not None:
                fd = os.open(stdout_path, os.O_WRONLY | os.O_CREAT | os.O_APPEND, 0o644)
                os.dup2(fd, 1)
                os.dup2(fd, 2)
                os.close(fd)
            try:
                out = fn(*args)
                payload = json.dumps({"ok": out}, default=str)
            except BaseException as e:  # noqa: BLE001
                payload = json.dumps(
                    {"exc": type(e).__name__, "msg": str(e)[:2000], "tb": traceback.format_exc()[-3000:]}
                )
                code = 3
            try:
                sys.stdout.flush()
            except Exception:
                pass
            data = payload.encode()
            off = 0
            while off < len(data):
                off += os.write(w, data[off : off + 65536])
        finally:
            os._exit(code)
    os.close(w)
    chunks = []
    deadline = time.time() + timeout
    timed_out = False
    while True:
        left = deadline - time.time()
        if left <= 0:
            timed_out = True
            break
        rd, _, _ = select.select([r], [], [], min(left, 5.0))
        if rd:
            c = os.read(r, 1 << 20)
            if not c:
                break
            chunks.append(c)
    os.close(r)
    if timed_out:
        try:
            os.kill(pid, signal.SIGKILL)
        except ProcessLookupError:
            pass
        os.waitpid(pid, 0)
        return "timeout", None
    _, st = os.waitpid(pid, 0)
    code = os.waitstatus_to_exitcode(st)
    data = b"".join(chunks)
    payload = None
    if data:
        try:
            payload = json.loads(data.decode())
        except Exception:
            payload = None
    return code, payload


# --------------------------------------------------------------------------------------
# known findings


def load_known_findings(prop):
    if not os.path.exists(KNOWN_FINDINGS):
        return []
    with open(KNOWN_FINDINGS) as fh:
        data = json.load(fh)
    return [f for f in data.get("findings", []) if f.get("property") == prop and f.get("status") == "open"]


def match_known(findings, failure, record):
    """A failure is a known finding iff every key of finding['match'] equals the failure's classification."""
    cls = dict(failure.get("detail", {}).get("classify", {}))
    cls["oracle"] = failure["oracle"]
    for f in findings:
        m = f.get("match", {})
        if m and all(cls.get(k) == v for k, v in m.items()):
            return f
    return None


# --------------------------------------------------------------------------------------
# evidence


def write_evidence(prop, tier, seed, level, coverage, assumptions, wall_s, violations, extra=None):
    os.makedirs(EVIDENCE_DIR, exist_ok=True)
    ev = {
        "property_id": prop,
        "tier": tier,
        "seed": int(seed),
        "level": level,
        "coverage": coverage,
        "assumptions": assumptions,
        "wall_s": round(float(wall_s), 2),
        "violations": int(violations),
    }
    if extra:
        ev.update(extra)
    path = os.path.join(EVIDENCE_DIR, f"{prop}.json")
    tmp = path + ".tmp"
    with open(tmp, "w") as fh:
        json.dump(ev, fh, indent=1, sort_keys=True, default=str)
    os.replace(tmp, path)
    return path


def merge_counts(dst, src):
    for k, v in (src or {}).items():
        if k == "max" and isinstance(v, dict):  # worst observed values: merged by maximum, not summed
            d = dst.setdefault("max", {})
            for kk, vv in v.items():
                d[kk] = max(d.get(kk, vv), vv)
        elif isinstance(v, dict):
            merge_counts(dst.setdefault(k, {}), v)
        elif isinstance(v, (int, float)) and not isinstance(v, bool):
            dst[k] = dst.get(k, 0) + v
        else:
            dst.setdefault(k, v)
    return dst


# --------------------------------------------------------------------------------------
# generic driver


class Check:
    """Base class of a property check.  Subclasses provide plan/execute/shrink/coverage."""

    prop = "C00"
    level = "exploration"
    module = None  # module name holding `execute`
    assumptions = []
    budget = {"quick": 150, "thorough": 1500}
    per_task_timeout = 900

    def plan(self, tier, seed):
        raise NotImplementedError

    def shrink_candidates(self, record):
        return []

    def coverage(self, results, tier):
        raise NotImplementedError

    def describe_failure(self, failure):
        return failure["msg"]

    def vacuous(self, results):
        """Return a message if the batch did not actually exercise the property (=> exit 2, never exit 0)."""
        return None


def same_failure(res, oracle):
    return res is not None and "harness_error" not in res and any(f["oracle"] == oracle for f in res["failures"])


def shrink(check, record, oracle, budget_s=120, max_tries=60):
    """Greedy fixed-budget shrinker: keep a candidate only if the same oracle id still fails."""
    t0 = time.time()
    tries = 0
    cur = record
    improved = True
    while improved and time.time() - t0 < budget_s and tries < max_tries:
        improved = False
        cands = list(check.shrink_candidates(cur))
        # evaluate candidates in small parallel batches, accept the first (in order) that still fails
        for j in range(0, len(cands), 8):
            if time.time() - t0 > budget_s or tries >= max_tries:
                break
            batch = cands[j : j + 8]
            tries += len(batch)
            rs, _ = run_pool(check.module, "execute", batch, workers=min(8, len(batch)))
            hit = None
            for c, r in zip(batch, rs):
                if same_failure(r, oracle):
                    hit = c
                    break
            if hit is not None:
                cur = hit
                improved = True
                break
    return cur, tries


def main(check, argv=None):
    import argparse

    ap = argparse.ArgumentParser(prog=f"dst {check.prop}")
    ap.add_argument("--tier", default=os.environ.get("VERIF_TIER", "quick"), choices=["quick", "thorough"])
    ap.add_argument("--seed", type=int, default=int(os.environ.get("VERIF_SEED", "20260925")))
    ap.add_argument("--replay", default=None)
    ap.add_argument("--runs", type=int, default=None, help="override number of runs (debugging)")
    ap.add_argument("--no-shrink", action="store_true")
    ap.add_argument("--dump", default=None, help="write all results to this JSON file (debugging)")
    args = ap.parse_args(argv)

    os.environ["VERIF_RUN_ID"] = str(os.getpid())
    try:
        return _main(check, args)
    finally:
        shutil.rmtree(shared_dir(), ignore_errors=True)


def _main(check, args):
    if args.replay:
        return replay(check, args.replay)

    t0 = time.time()
    print(f"[{check.prop}] tier={args.tier} VERIF_SEED={args.seed} repo={os.environ.get('VERIF_REPO', '/repo')}", flush=True)
    records = check.plan(args.tier, args.seed)
    if args.runs is not None:
        records = records[: args.runs]
    try:
        results, skipped = run_pool(
            check.module,
            "execute",
            records,
            budget_s=check.budget[args.tier],
            per_task_timeout=check.per_task_timeout,
            progress=max(1, len(records) // 10),
        )
    except HarnessError as e:
        print(f"HARNESS-ERROR property={check.prop} {e}")
        return EXIT_HARNESS
    done = [r for r in results if r is not None]
    if args.dump:
        with open(args.dump, "w") as fh:
            json.dump(done, fh, indent=1, default=str)
    harness = [r for r in done if "harness_error" in r]
    good = [r for r in done if "harness_error" not in r]
    known = load_known_findings(check.prop)
    known_seen = {}
    violations = []
    for r in good:
        for f in r["failures"]:
            kf = match_known(known, f, r["record"])
            if kf is not None:
                known_seen.setdefault(kf["id"], []).append((r["record"], f))
            else:
                violations.append((r, f))

    exit_code = EXIT_OK
    for kid, items in sorted(known_seen.items()):
        kf = [k for k in known if k["id"] == kid][0]
        print(f"KNOWN-FINDING: property={check.prop} {kid}: {kf['what']} (seen in {len(items)} run(s) this time)")

    reported = 0
    if violations:
        exit_code = EXIT_VIOLATION
        # one report per distinct oracle id (the first run that failed it), confirmed and minimised
        seen_oracles = set()
        for r, f in violations:
            if f["oracle"] in seen_oracles:
                continue
            seen_oracles.add(f["oracle"])
            rec = r["record"]
            conf, _ = run_pool(check.module, "execute", [rec], workers=1)
            if not same_failure(conf[0], f["oracle"]):
                print(
                    f"HARNESS-ERROR property={check.prop} failure of oracle {f['oracle']} did not reproduce on re-execution: {f['msg']}"
                )
                exit_code = max(exit_code, EXIT_HARNESS)
                continue
            small, tries = (rec, 0) if args.no_shrink else shrink(check, rec, f["oracle"])
            final, _ = run_pool(check.module, "execute", [small], workers=1)
            ffs = [x for x in final[0].get("failures", []) if x["oracle"] == f["oracle"]]
            if ffs:
                ff = ffs[0]
            else:
                # failed in the batch and on re-execution but not on this third execution: the system under test
                # itself behaves differently from execution to execution (e.g. uninitialised memory); report the
                # confirmed failure and say so
                small, final = rec, conf
                ff = dict([x for x in conf[0]["failures"] if x["oracle"] == f["oracle"]][0])
                ff["msg"] += " [intermittent: failed in the batch and on re-execution, not on a third execution]"
            path = write_replay(check, args.seed, small, ff, final[0].get("digest"), tries, original=rec)
            print(f"VIOLATION property={check.prop} replay={path}")
            print(f"  oracle={ff['oracle']}: {ff['msg']}")
            reported += 1
    if harness:
        for r in harness[:5]:
            print(f"HARNESS-ERROR property={check.prop} {r['harness_error'][:1500]}")
        exit_code = max(exit_code, EXIT_HARNESS)

    vac = check.vacuous(good) if good else "no run produced a result"
    if vac:
        print(f"HARNESS-ERROR property={check.prop} the check could not exercise the property: {vac}")
        exit_code = max(exit_code, EXIT_HARNESS)
    if reported:
        # at least one violation was confirmed on re-execution and written as a replay: that is the verdict, whatever
        # else went wrong alongside (harness errors are still printed above and counted in the evidence)
        exit_code = EXIT_VIOLATION
    wall = time.time() - t0
    cov = check.coverage(good, args.tier)
    cov.setdefault("runs_skipped_for_wall_budget", skipped)
    cov["runs_per_hour"] = int(len(good) / max(wall, 1e-9) * 3600)
    cov["known_findings_seen"] = {k: len(v) for k, v in known_seen.items()}
    cov["harness_errors"] = len(harness)
    write_evidence(
        check.prop,
        args.tier,
        args.seed,
        check.level,
        cov,
        list(check.assumptions),
        wall,
        len({f["oracle"] for _, f in violations}),
    )
    print(
        f"[{check.prop}] runs={len(good)} skipped={skipped} harness_errors={len(harness)} "
        f"violating_runs={len({id(r) for r, _ in violations})} known={sum(len(v) for v in known_seen.values())} wall={wall:.0f}s exit={exit_code}",
        flush=True,
    )
    return exit_code


def write_replay(check, seed, record, failure, dig, tries, original=None):
    d = os.path.join(REPLAY_DIR, check.prop)
    os.makedirs(d, exist_ok=True)
    name = f"{check.prop}-{seed}-{failure['oracle'].replace('/', '_')}-{digest(record)}.json"
    path = os.path.join(d, name)
    with open(path, "w") as fh:
        json.dump(
            {
                "property": check.prop,
                "verif_seed": seed,
                "oracle": failure["oracle"],
                "message": failure["msg"],
                "detail": failure.get("detail", {}),
                "digest": dig,
                "shrink_tries": tries,
                "record": record,
                "original_record": original if original != record else None,
                "replay_cmd": f"/venv/bin/python -m dst {check.prop} --replay {path}",
            },
            fh,
            indent=1,
            default=str,
        )
    return path


def replay(check, path):
    with open(path) as fh:
        rp = json.load(fh)
    res, _ = run_pool(check.module, "execute", [rp["record"]], workers=1)
    r = res[0]
    if "harness_error" in r:
        print(f"HARNESS-ERROR property={check.prop} {r['harness_error']}")
        return EXIT_HARNESS
    hit = [f for f in r["failures"] if f["oracle"] == rp["oracle"]]
    if hit:
        kf = match_known(load_known_findings(check.prop), hit[0], rp["record"])
        if kf is not None:
            # the replayed history now falls under a committed known finding (matched by site, as in a normal run)
            print(f"KNOWN-FINDING: property={check.prop} {kf['id']}: {kf['what']}")
            return EXIT_OK
        same = (r.get("digest") == rp.get("digest")) or rp.get("digest") is None
        print(f"VIOLATION property={check.prop} replay={path}")
        print(f"  oracle={hit[0]['oracle']}: {hit[0]['msg']}")
        print(f"  digest {'identical' if same else 'DIFFERS'}: {r.get('digest')} (recorded {rp.get('digest')})")
        return EXIT_VIOLATION
    print(f"[{check.prop}] replay did not fail oracle {rp['oracle']} on this tree; failures now: {[f['oracle'] for f in r['failures']]}")
    return EXIT_OK
