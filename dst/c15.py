"""C15 - results depend only on the call's inputs, not on process history or compute threads.

histsim: one Python process is a shared-state machine; "clients" are jobs drawn from a pool of
heterogeneous public-API calls.  A seeded scheduler builds a history (2-8 operations), decides
which Constants / settings dictionaries / driver objects are reused, interleaves the forward and
backward phases of differentiable jobs, injects call-boundary aborts and failing jobs, and picks
the thread count.  Reference model: the same job executed as the first and only thing in a child
forked from the pristine worker, one thread.
"""
import copy
import hashlib
import json
import os
import shutil
import sys

import numpy as np

from . import core, mdsim

PROP = "C15"

MOLS = {
    "h2o": dict(batch=["h2o"]),
    "ch4": dict(batch=["ch4"]),
    "nh3": dict(batch=["nh3"]),
    "h2co": dict(batch=["h2co"]),
    "hf": dict(batch=["hf"]),
    "mix": dict(batch=["h2o", "h2"]),
    "mix3": dict(batch=["ch4", "h2o", "hf"]),
    "mixb": dict(batch=["nh3", "hf"]),
    "mixc": dict(batch=["h2o", "hf"]),
    "ch3": dict(batch=["ch3"], mult=2),
    "oh-": dict(batch=["oh"], charges=-1),
    "c2h4": dict(batch=["c2h4"]),
    "hcn": dict(batch=["hcn"]),
    "hscl": dict(batch=["hscl"]),
    "h2s": dict(batch=["h2s"]),
    "far2": dict(batch=["h2o_far2"]),
    "far2mix": dict(batch=["h2o_far2", "h2co"]),
}
mdsim.POOL.setdefault("ch3", ([6, 1, 1, 1], [[0.0, 0.0, 0.0], [1.079, 0.0, 0.0], [-0.5395, 0.9344, 0.0], [-0.5395, -0.9344, 0.0]]))
mdsim.POOL.setdefault("oh", ([8, 1], [[0.0, 0.0, 0.0], [0.97, 0.0, 0.0]]))
# two water molecules 25 A apart in ONE molecule record: atom pairs beyond every pair cutoff (overlap range 40 bohr)
mdsim.POOL.setdefault("h2o_far2", ([8, 8, 1, 1, 1, 1], [[0.0, 0.0, 0.0], [25.0, 0.3, -0.2], [0.9584, 0.0, 0.0], [-0.2400, 0.9279, 0.0], [25.0, 1.2584, -0.2], [25.93, 0.06, -0.2]]))
mdsim.POOL.setdefault("hscl", ([17, 16, 1], [[0.0, 0.0, 0.0], [0.0, 2.05, 0.0], [1.30, 2.35, 0.1]]))

# settings families: jobs of one family may share ONE dictionary object (with different molecules)
FAM = {
    # explicit element list (documented alternative to letting Molecule fill it in): drivers built from
    # these dictionaries are valid for every molecule of the pool, so driver reuse across molecules is legal
    "am1": {"method": "AM1", "scf_eps": 1e-8, "scf_converger": [1], "elements": [0, 1, 6, 7, 8, 9]},
    "am1_pulay": {"method": "AM1", "scf_eps": 1e-8, "scf_converger": [2]},
    "pm3_pulay": {"method": "PM3", "scf_eps": 1e-7, "scf_converger": [2]},
    "mndo_fixed": {"method": "MNDO", "scf_eps": 1e-6, "scf_converger": [0, 0.3]},
    "am1_sp2": {"method": "AM1", "scf_eps": 1e-6, "scf_converger": [0, 0.2], "sp2": [True, 1e-6]},
    "am1_ksa": {"method": "AM1", "scf_eps": 1e-7, "scf_converger": [3, {"T_el": 1500, "max_rank": 2, "err_threshold": 0.0}]},
    "pm6sp": {"method": "PM6_SP", "scf_eps": 1e-7, "scf_converger": [1]},
    "pm6": {"method": "PM6", "scf_eps": 1e-7, "scf_converger": [0, 0.3]},
    "am1_uhf": {"method": "AM1", "scf_eps": 1e-7, "scf_converger": [1], "UHF": True},
    "am1_cis": {"method": "AM1", "scf_eps": 1e-8, "scf_converger": [1], "excited_states": {"n_states": 3, "method": "cis"}, "active_state": 1, "analytical_gradient": [True]},
    "am1_rpa": {"method": "AM1", "scf_eps": 1e-8, "scf_converger": [1], "excited_states": {"n_states": 2, "method": "rpa"}},
    "am1_anal": {"method": "AM1", "scf_eps": 1e-8, "scf_converger": [1], "analytical_gradient": [True]},
    "am1_b1_tight": {"method": "AM1", "scf_eps": 1e-10, "scf_converger": [1], "scf_backward": 1},
    "pm3_b1_loose": {"method": "PM3", "scf_eps": 1e-4, "scf_converger": [1], "scf_backward": 1},
    "am1_b2": {"method": "AM1", "scf_eps": 1e-8, "scf_converger": [0, 0.2], "scf_backward": 2},
    "pm6sp_b1": {"method": "PM6_SP", "scf_eps": 1e-8, "scf_converger": [1], "scf_backward": 1},
    "am1_md": {"method": "AM1", "scf_eps": 1e-7, "scf_converger": [1], "elements": [0, 1, 6, 7, 8, 9]},
    "am1_esmd": {"method": "AM1", "scf_eps": 1e-7, "scf_converger": [1], "excited_states": {"n_states": 2, "method": "cis"}, "active_state": 1, "elements": [0, 1, 6, 8]},
    "am1_sh": {"method": "AM1", "scf_eps": 1e-7, "scf_converger": [1], "excited_states": {"n_states": 2, "method": "cis", "tolerance": 1e-6}, "elements": [0, 1, 6, 8]},
    "am1_bad_active": {"method": "AM1", "scf_eps": 1e-7, "scf_converger": [1], "active_state": 1},
    "am1_uhf_pulay": {"method": "AM1", "scf_eps": 1e-7, "scf_converger": [2], "UHF": True},
    # PM6 with d-shell elements (S, Cl): process-global caches of d-orbital terms are in play
    "pm6_d": {"method": "PM6", "scf_eps": 1e-8, "scf_converger": [0, 0.2]},
    # single-precision callers (default dtype float32 for the duration of their call)
    "am1_f32": {"method": "AM1", "scf_eps": 1e-4, "scf_converger": [1]},
    "pm3_f32": {"method": "PM3", "scf_eps": 1e-4, "scf_converger": [0, 0.2]},
    "pm6_d_learned": {"method": "PM6", "scf_eps": 1e-8, "scf_converger": [0, 0.2], "learned": ["zeta_d"]},
}

JOBS = {
    "sp_am1_h2o": dict(fam="am1", mol="h2o", kind="sp"),
    "sp_am1_nh3": dict(fam="am1", mol="nh3", kind="sp"),
    "sp_am1_ch4": dict(fam="am1", mol="ch4", kind="sp"),
    "sp_am1_mix3": dict(fam="am1", mol="mix3", kind="sp"),
    "sp_am1_far2": dict(fam="am1", mol="far2", kind="sp"),
    "sp_pm3_far2mix": dict(fam="pm3_pulay", mol="far2mix", kind="sp"),
    "sp_am1p_h2co": dict(fam="am1_pulay", mol="h2co", kind="sp"),
    "sp_pm3_ch4": dict(fam="pm3_pulay", mol="ch4", kind="sp"),
    "sp_pm3_mix": dict(fam="pm3_pulay", mol="mix", kind="sp"),
    "sp_mndo_mix": dict(fam="mndo_fixed", mol="mix", kind="sp"),
    "sp_mndo_hf": dict(fam="mndo_fixed", mol="hf", kind="sp"),
    "sp_sp2_nh3": dict(fam="am1_sp2", mol="nh3", kind="sp"),
    "sp_sp2_mix3": dict(fam="am1_sp2", mol="mix3", kind="sp"),
    "sp_ksa_h2o": dict(fam="am1_ksa", mol="h2o", kind="sp"),
    "sp_pm6sp_h2co": dict(fam="pm6sp", mol="h2co", kind="sp"),
    "sp_pm6_h2o": dict(fam="pm6", mol="h2o", kind="sp"),
    "uhf_ch3": dict(fam="am1_uhf", mol="ch3", kind="sp"),
    "uhf_h2o": dict(fam="am1_uhf", mol="h2o", kind="sp"),
    "anion_oh": dict(fam="am1", mol="oh-", kind="sp"),
    "cis_h2co": dict(fam="am1_cis", mol="h2co", kind="sp"),
    "cis_c2h4": dict(fam="am1_cis", mol="c2h4", kind="sp"),
    "rpa_h2o": dict(fam="am1_rpa", mol="h2o", kind="sp"),
    "anal_ch4": dict(fam="am1_anal", mol="ch4", kind="sp"),
    "g1_tight_h2o": dict(fam="am1_b1_tight", mol="h2o", kind="grad", loss="gap"),
    "g1_tight_nh3": dict(fam="am1_b1_tight", mol="nh3", kind="grad", loss="charge"),
    "g1_loose_ch4": dict(fam="pm3_b1_loose", mol="ch4", kind="grad", loss="gap"),
    "g1_loose_nh3": dict(fam="pm3_b1_loose", mol="nh3", kind="grad", loss="gap"),
    "g1_pm6sp_h2co": dict(fam="pm6sp_b1", mol="h2co", kind="grad", loss="gap"),
    "g2_h2o": dict(fam="am1_b2", mol="h2o", kind="grad", loss="gap"),
    "md_basic_h2o": dict(fam="am1_md", mol="h2o", kind="md", eng="basic"),
    "md_lang_mix": dict(fam="am1_md", mol="mix", kind="md", eng="langevin"),
    "md_xl_h2o": dict(fam="am1_md", mol="h2o", kind="md", eng="xl"),
    "md_ksa_nh3": dict(fam="am1_md", mol="nh3", kind="md", eng="ksa"),
    "md_basic_ch4": dict(fam="am1_md", mol="ch4", kind="md", eng="basic"),
    "md_basic_h2o_com": dict(fam="am1_md", mol="h2o", kind="md", eng="basic", remove_com=["linear", 1]),
    "md_basic_nh3_ang": dict(fam="am1_md", mol="nh3", kind="md", eng="basic", remove_com=["angular", 2]),
    "md_lang_mix3b": dict(fam="am1_md", mol="mixb", kind="md", eng="langevin"),
    "md_xl_nh3": dict(fam="am1_md", mol="nh3", kind="md", eng="xl"),
    "md_lang_mixc": dict(fam="am1_md", mol="mixc", kind="md", eng="langevin"),
    "md_xlesmd_h2co": dict(fam="am1_esmd", mol="h2co", kind="md", eng="xl_esmd"),
    "md_excbasic_h2co": dict(fam="am1_esmd", mol="h2co", kind="md", eng="basic"),
    "md_excxl_h2co": dict(fam="am1_esmd", mol="h2co", kind="md", eng="xl"),
    "cis_esmd_h2co": dict(fam="am1_esmd", mol="h2co", kind="sp"),
    "md_sh_h2co": dict(fam="am1_sh", mol="h2co", kind="md", eng="sh"),
    "cis2_h2co": dict(fam="am1_sh", mol="h2co", kind="sp"),
    # stochastic engines started from caller-supplied velocities: run(seed=...) alone must make them reproducible
    "md_lang_h2o_uv": dict(fam="am1_md", mol="h2o", kind="md", eng="langevin", user_vel=True),
    "md_lang_mix_uv": dict(fam="am1_md", mol="mix", kind="md", eng="langevin", user_vel=True),
    "opt_h2o": dict(fam="am1_md", mol="h2o", kind="opt"),
    "opt_nh3": dict(fam="am1_md", mol="nh3", kind="opt"),
    "md_basic_hcn": dict(fam="am1_md", mol="hcn", kind="md", eng="basic"),
    "sp_pm6_hscl": dict(fam="pm6_d", mol="hscl", kind="sp"),
    "sp_pm6_h2s": dict(fam="pm6_d", mol="h2s", kind="sp"),
    "sp_pm6_hscl_learned": dict(fam="pm6_d_learned", mol="hscl", kind="sp", learned={"zeta_d": [1.45, 1.60, 0.0]}),
    "sp32_am1_ch4": dict(fam="am1_f32", mol="ch4", kind="sp", dtype="float32"),
    "sp32_pm3_mix": dict(fam="pm3_f32", mol="mix", kind="sp", dtype="float32"),
    "fail_pm6_float32": dict(fam="pm6_d", mol="hscl", kind="sp", dtype="float32", expect_fail=True),
    "fail_odd_rhf": dict(fam="am1", mol="ch3", kind="sp", nomult=True, expect_fail=True),
    "fail_unsorted": dict(fam="am1", mol="h2o", kind="sp", unsorted=True, expect_fail=True),
    "fail_uhf_pulay": dict(fam="am1_uhf_pulay", mol="ch3", kind="sp", expect_fail=True),
    "fail_active_no_exc": dict(fam="am1_bad_active", mol="h2o", kind="sp", expect_fail=True),
}
F32_JOBS = [j for j, v in JOBS.items() if v.get("dtype") == "float32" and not v.get("expect_fail")]
GRAD_JOBS = [j for j, v in JOBS.items() if v["kind"] == "grad"]
MD_JOBS = [j for j, v in JOBS.items() if v["kind"] in ("md", "opt")]


class InjectedFailure(RuntimeError):
    pass


def _hex(*tensors):
    h = hashlib.sha256()
    for t in tensors:
        h.update(np.ascontiguousarray(t).tobytes())
    return h.hexdigest()[:16]


def _np(t):
    return t.detach().cpu().numpy().copy()


class Session:
    """Lives inside the child: the shared process state a history acts on."""

    def __init__(self, workdir, flags):
        self.workdir = workdir
        self.flags = flags
        self.const = None
        self.dicts = {}
        self.drivers = {}
        self.pending = {}
        self.counter = 0

    def _inputs(self, name, reuse):
        import torch

        from seqm.Molecule import Molecule
        from seqm.seqm_functions.constants import Constants

        j = JOBS[name]
        fam = j["fam"]
        if j.get("dtype"):
            # a call in another precision builds its own objects: a Constants instance created under another
            # default dtype is not a valid object to hand to a float64 job (that would be the caller's error)
            const = Constants()
        elif reuse.get("const") and self.const is not None:
            const = self.const
        else:
            const = Constants()
            self.const = self.const or const
        if reuse.get("dict") and fam in self.dicts:
            sp = self.dicts[fam]
        else:
            sp = copy.deepcopy(FAM[fam])
            self.dicts[fam] = sp  # "the dictionary of this family" = the most recent one
        m = MOLS[j["mol"]]
        species, xyz = mdsim.build_batch({"batch": m["batch"], "rotate": 77})
        dtype = getattr(torch, j.get("dtype", "float64"))
        if j.get("unsorted"):
            species = species[:, ::-1].copy()
            xyz = xyz[:, ::-1].copy()
        kw = {}
        if "mult" in m and not j.get("nomult"):
            kw["mult"] = m["mult"]
        if "charges" in m:
            kw["charges"] = m["charges"]
        mol = Molecule(const, sp, torch.as_tensor(xyz, dtype=dtype), torch.as_tensor(species, dtype=torch.int64), **kw)
        mol.verbose = False
        return j, sp, mol

    def _driver(self, cls, name, sp, mol, reuse):
        if JOBS[name].get("dtype"):
            return cls(sp)
        key = (cls.__name__, id(sp))
        need = set(mol.species.reshape(-1).tolist())
        if reuse.get("driver") and key in self.drivers and need <= self.drivers[key][1]:
            return self.drivers[key][0]
        d = cls(sp)
        self.drivers[key] = (d, set(sp["elements"]), sp)
        return d

    def run(self, name, reuse):
        """Whole job -> dict of output arrays."""
        import torch

        import seqm.MolecularDynamics as MDm
        from seqm.ElectronicStructure import Electronic_Structure

        if JOBS[name].get("dtype"):
            # a caller working in another precision switches the default dtype for its call and back
            torch.set_default_dtype(getattr(torch, JOBS[name]["dtype"]))
        try:
            j, sp, mol = self._inputs(name, reuse)
            kind = j["kind"]
            if kind == "sp":
                es = self._driver(Electronic_Structure, name, sp, mol, reuse)
                lp = {k: torch.as_tensor(v, dtype=mol.coordinates.dtype) for k, v in j.get("learned", {}).items()}
                es(mol, learned_parameters=lp) if lp else es(mol)
        finally:
            torch.set_default_dtype(torch.float64)
        if kind == "sp":
            out = {"Etot": _np(mol.Etot), "force": _np(mol.force), "dm": _np(mol.dm), "q": _np(mol.q), "e_gap": _np(mol.e_gap)}
            if torch.is_tensor(mol.cis_energies):
                out["cis_energies"] = _np(mol.cis_energies)
            return out
        if kind == "grad":
            self.fwd(name, reuse, key="_tmp")
            return self.bwd(["_tmp"])["_tmp"]
        self.counter += 1
        prefix = os.path.join(self.workdir, f"job{self.counter}")
        if kind == "md":
            out = {"molid": [0], "prefix": prefix, "print every": 0, "checkpoint every": 2, "xyz": 1, "h5": {"data": 1, "coordinates": 1}}
            eng = j["eng"]
            out["prefix"] = os.path.join(self.workdir, f"md-{eng}")  # a reused MD driver keeps its output prefix
            common = dict(seqm_parameters=sp, timestep=0.4, Temp=300.0, output=out)
            key = ("md", eng, id(sp))
            need = set(mol.species.reshape(-1).tolist())
            if reuse.get("driver") and key in self.drivers and need <= self.drivers[key][1]:
                md = self.drivers[key][0]
                self.md_reused = getattr(self, "md_reused", 0) + 1
            else:
                if eng == "basic":
                    md = MDm.Molecular_Dynamics_Basic(**common)
                elif eng == "langevin":
                    md = MDm.Molecular_Dynamics_Langevin(damp=20.0, **common)
                elif eng == "xl":
                    md = MDm.XL_BOMD(xl_bomd_params={"k": 5}, **common)
                elif eng == "xl_esmd":
                    md = MDm.XL_ESMD(xl_bomd_params={"k": 5}, **common)
                elif eng == "sh":
                    import seqm.NonadiabaticDynamics as NDm

                    md = NDm.SurfaceHoppingDynamics(initial_state=1, **dict(common, timestep=0.2))
                else:
                    md = MDm.KSA_XL_BOMD(xl_bomd_params={"k": 4, "max_rank": 2, "err_threshold": 0.0, "T_el": 1500}, **common)
                self.drivers[key] = (md, set(sp["elements"]), sp)
            rc = j.get("remove_com")
            if j.get("user_vel"):
                # velocities supplied by the caller (documented); the seed then governs only the thermostat noise / hop draws
                g = torch.Generator().manual_seed(4711)
                mol.velocities = 0.01 * torch.randn(mol.coordinates.shape, generator=g, dtype=mol.coordinates.dtype) * (mol.species > 0).unsqueeze(-1)
            md.run(mol, steps=3, seed=11, remove_com=tuple(rc) if rc else None)
            res = {"x": _np(mol.coordinates), "v": _np(mol.velocities), "Etot": _np(mol.Etot)}
            if eng == "sh":
                # the electronic state of the surface-hopping run: amplitudes, active surfaces, logged events
                res["amp"] = _np(md._amp_phase)
                res["active"] = _np(md._active_states)
                res["hops"] = np.array([[e.step, e.from_state, e.to_state, int(bool(e.accepted)), e.mol_index] for e in md.hop_log], dtype=np.int64).reshape(-1, 5)
            return res
        if kind == "opt":
            key = ("opt", id(sp))
            need = set(mol.species.reshape(-1).tolist())
            if reuse.get("driver") and key in self.drivers and need <= self.drivers[key][1]:
                opt = self.drivers[key][0]
            else:
                opt = MDm.Geometry_Optimization_SD(sp, alpha=0.005, force_tol=1e-4, max_evl=4)
                self.drivers[key] = (opt, set(sp["elements"]), sp)
            fe, de = opt.run(mol, log=False)
            return {"x": _np(mol.coordinates), "Etot": _np(mol.Etot), "fe": _np(fe), "de": _np(de)}
        raise ValueError(kind)

    def fwd(self, name, reuse, key):
        from seqm.basics import Energy

        j, sp, mol = self._inputs(name, reuse)
        en = self._driver(Energy, name, sp, mol, reuse)
        r = en(mol, all_terms=True)
        loss = r[6].sum() if j["loss"] == "gap" else (r[9][:, 0]).sum()
        self.pending[key] = (mol, loss, _np(r[1]))

    def bwd(self, keys):
        import torch

        mols = [self.pending[k][0] for k in keys]
        loss = self.pending[keys[0]][1]
        for k in keys[1:]:
            loss = loss + self.pending[k][1]
        gs = torch.autograd.grad(loss, [m.coordinates for m in mols])
        out = {}
        for k, g in zip(keys, gs):
            out[k] = {"grad": _np(g), "Etot": self.pending[k][2]}
            del self.pending[k]
        return out


def _install_abort(n):
    """abort@call:n - the n-th call of a function defined under seqm/ raises at entry."""
    state = {"n": 0, "fired": None}
    root = os.sep + "seqm" + os.sep

    def tracer(frame, event, arg):
        if event == "call" and root in frame.f_code.co_filename and state["fired"] is None:
            state["n"] += 1
            if state["n"] == n:
                state["fired"] = f"{os.path.basename(frame.f_code.co_filename)}:{frame.f_code.co_name}"
                raise InjectedFailure(f"injected failure at call {n}: {state['fired']}")
        return None

    sys.settrace(tracer)
    return state


def _child_history(ops, workdir, threads):
    import torch

    torch.set_num_threads(threads)
    sess = Session(workdir, {})
    res = []
    for op in ops:
        entry = {"op": op["op"], "jobs": op.get("jobs") or [op.get("job")]}
        st = None
        try:
            if op.get("abort"):
                st = _install_abort(op["abort"])
            if op["op"] == "run":
                entry["out"] = {op["id"]: _pack(sess.run(op["job"], op.get("reuse", {})))}
            elif op["op"] == "fwd":
                sess.fwd(op["job"], op.get("reuse", {}), key=op["id"])
                entry["out"] = {}
            elif op["op"] == "bwd":
                entry["out"] = {k: _pack(v) for k, v in sess.bwd(op["ids"]).items()}
            elif op["op"] == "rng":
                torch.manual_seed(op["seed"])
                torch.randn(op["n"])
                np.random.seed(op["seed"] % (1 << 31))
                entry["out"] = {}
        except InjectedFailure as e:
            entry["aborted"] = str(e)
            for k in op.get("ids", [op.get("id")]):
                sess.pending.pop(k, None)
        except BaseException as e:  # noqa: BLE001
            if "injected failure at call" in str(e):  # re-wrapped by a library except clause
                entry["aborted"] = str(e)[:200]
            else:
                entry["exc"] = f"{type(e).__name__}: {str(e)[:160]}"
            for k in op.get("ids", [op.get("id")]):
                sess.pending.pop(k, None)
        finally:
            sys.settrace(None)
            if st is not None:
                entry["abort_fired"] = st["fired"]
                entry["calls_seen"] = st["n"]
        res.append(entry)
    return res


def _pack(out):
    return {"hex": _hex(*[out[k] for k in sorted(out)]), "vals": {k: np.asarray(out[k]).reshape(-1).tolist() for k in sorted(out) if k != "dm"}}


_REF_CACHE = {}


def reference(job, root):
    """The job as the first and only thing a pristine process does (1 thread). Cached per worker."""
    if job in _REF_CACHE:
        return _REF_CACHE[job]
    shared = os.path.join(core.shared_dir(), f"c15-ref-{job}.json")
    if os.path.exists(shared):
        _REF_CACHE[job] = json.load(open(shared))
        return _REF_CACHE[job]
    d = os.path.join(root, f"ref-{job}")
    os.makedirs(d, exist_ok=True)
    ops = [{"op": "run", "job": job, "id": "r", "reuse": {}}]
    st, payload = core.run_in_child(_child_history, (ops, d, 1), timeout=600, stdout_path=os.path.join(d, "stdout.txt"))
    if st != 0 or not payload or "ok" not in payload:
        raise core.HarnessError(f"reference run of {job} died: {st} {payload}")
    e = payload["ok"][0]
    ref = {"exc": e.get("exc"), "out": (e.get("out") or {}).get("r")}
    if JOBS[job].get("expect_fail") and not ref["exc"]:
        raise core.HarnessError(f"job {job} was expected to be rejected by the library but succeeded when run fresh")
    if not JOBS[job].get("expect_fail") and ref["exc"]:
        raise core.HarnessError(f"job {job} fails even when run fresh: {ref['exc']}")
    _REF_CACHE[job] = ref
    tmp = shared + f".{os.getpid()}.tmp"
    with open(tmp, "w") as fh:
        json.dump(ref, fh)
    os.replace(tmp, shared)
    return ref


def gen_history(rng):
    names = list(JOBS)
    n = rng.randint(2, 8)
    ops, k = [], 0
    used_fams = set()
    while len(ops) < n:
        u = rng.random()
        k += 1
        reuse = {"const": rng.random() < 0.5, "dict": rng.random() < 0.5, "driver": rng.random() < 0.3}
        if u < 0.3:
            # interleaving pattern over 2-3 differentiable jobs
            js = [rng.choice(GRAD_JOBS) for _ in range(rng.randint(2, 3))]
            ids = [f"g{k}_{i}" for i in range(len(js))]
            for j, i in zip(js, ids):
                ops.append({"op": "fwd", "job": j, "id": i, "reuse": dict(reuse)})
            pat = rng.choice(["fifo", "lifo", "summed", "shuffled"])
            if pat == "summed":
                ops.append({"op": "bwd", "ids": ids, "jobs": js})
            else:
                order = list(range(len(js)))
                if pat == "lifo":
                    order.reverse()
                elif pat == "shuffled":
                    rng.shuffle(order)
                for o in order:
                    ops.append({"op": "bwd", "ids": [ids[o]], "jobs": [js[o]]})
        elif u < 0.36:
            ops.append({"op": "rng", "seed": rng.randrange(1 << 30), "n": rng.choice([1, 7, 100])})
        else:
            j = rng.choice(names)
            if rng.random() < 0.25:
                j = rng.choice(MD_JOBS)  # MD/optimiser drivers carry the most per-object state
                reuse["driver"] = rng.random() < 0.7
                reuse["dict"] = True
            op = {"op": "run", "job": j, "id": f"j{k}", "reuse": reuse}
            if rng.random() < 0.15 and not JOBS[j].get("expect_fail"):
                op["abort"] = rng.choice([1, 2, 3, 5, 8, 13, 21, 34, 55, 89, 144, 233, 377, 610])
            ops.append(op)
            if rng.random() < 0.15:
                k += 1
                ops.append({"op": "run", "job": j, "id": f"j{k}", "reuse": {"const": True, "dict": True, "driver": rng.random() < 0.5}})
    u_stratum = rng.random()
    if u_stratum < 0.10:
        # settings-dictionary stratum: two DIFFERENT jobs of one settings family, the second with the dictionary object
        # the first one used (whatever the first job wrote into it must not change the second job's numbers)
        fams = {}
        for j, v in JOBS.items():
            if not v.get("expect_fail") and not v.get("dtype"):
                fams.setdefault(v["fam"], []).append(j)
        fam = rng.choice(sorted(f for f, js in fams.items() if len(js) >= 2))
        a, b = rng.sample(fams[fam], 2)
        if rng.random() < 0.5 and fam == "am1_sh":
            a, b = "md_sh_h2co", "cis2_h2co"
        if rng.random() < 0.3:
            # the engine that adjusts excited-state settings for its own steps, then a calculation that must not see them
            a, b = "md_excxl_h2co", rng.choice(["cis_esmd_h2co", "md_excbasic_h2co"])
        ops = [{"op": "run", "job": a, "id": "fa", "reuse": {"const": False, "dict": False, "driver": False}}, {"op": "run", "job": b, "id": "fb", "reuse": {"const": rng.random() < 0.5, "dict": True, "driver": False}}]
    elif u_stratum < 0.24:
        # MD-driver stratum: two (or three) DIFFERENT runs on ONE MD / optimiser driver object - other molecule, other atom
        # count, other COM mode, caller-supplied velocities - each compared with the same run on new objects
        groups = {}
        for j, v in JOBS.items():
            if v["kind"] in ("md", "opt") and not v.get("expect_fail"):
                groups.setdefault((v["fam"], v["kind"], v.get("eng")), []).append(j)
        key = rng.choice(sorted(groups, key=str))
        js = [rng.choice(groups[key]) for _ in range(rng.choice([2, 2, 3]))]  # the same run twice on one driver is a case too
        ops = [{"op": "run", "job": j, "id": f"m{n_}", "reuse": {"const": n_ > 0 and rng.random() < 0.5, "dict": n_ > 0, "driver": n_ > 0}} for n_, j in enumerate(js)]
    elif u_stratum < 0.29:
        # process-global caches of PM6 d-orbital terms: a PM6 job on d-shell elements after another one with other d
        # exponents (learned parameters), other elements, or after a call the library rejects half-way
        a = rng.choice(["sp_pm6_hscl_learned", "fail_pm6_float32", "sp_pm6_h2s", "sp_pm6_hscl"])
        b = rng.choice([j for j in ("sp_pm6_hscl", "sp_pm6_h2s", "sp_pm6_hscl_learned", "sp_pm6_h2o") if j != a])
        ops = [{"op": "run", "job": a, "id": "pa", "reuse": {"const": False, "dict": False, "driver": False}}, {"op": "run", "job": b, "id": "pb", "reuse": {"const": rng.random() < 0.5, "dict": False, "driver": False}}]
    if rng.random() < 0.12:
        # the very first calculation of the process is a single-precision one (anything captured on first use
        # under the float32 default dtype would leak into the float64 jobs that follow)
        ops.insert(0, {"op": "run", "job": rng.choice(F32_JOBS), "id": "f32first", "reuse": {"const": False, "dict": False, "driver": False}})
    threads = 1
    if rng.random() < 0.12:
        # thread-count stratum: short histories of cheap jobs only (tiny tensors on many threads are
        # slow, and pathologically so when the machine is oversubscribed)
        light = [j for j, v in JOBS.items() if v["kind"] == "sp" and not v.get("expect_fail")]
        ops = [{"op": "run", "job": rng.choice(light), "id": f"t{i}", "reuse": {"const": True, "dict": rng.random() < 0.5, "driver": rng.random() < 0.5}} for i in range(rng.randint(2, 3))]
        threads = rng.choice([2, 2, 4, 4, 16])
    return ops, threads


def execute(record):
    root = core.make_scratch(f"c15-{record.get('i', 0)}-{core.digest(record)}")
    try:
        return _execute(record, root)
    finally:
        shutil.rmtree(root, ignore_errors=True)


def _execute(record, root):
    ops, threads = record["ops"], record["threads"]
    tol = core.tolerances()["C15"]
    failures, stats = [], {"probes": {}, "jobs_compared": 0, "max": {}}
    hd = os.path.join(root, "hist")
    os.makedirs(hd)
    st, payload = core.run_in_child(_child_history, (ops, hd, threads), timeout=900, stdout_path=os.path.join(hd, "stdout.txt"))
    if st != 0 or not payload or "ok" not in payload:
        failures.append(core.fail("history-died", f"the process running the history died: status {st} {str(payload)[:300]}"))
        return core.Result.make(record, failures, stats, sig=None, nontrivial=False)
    res = payload["ok"]
    jobmap = {}
    for op in ops:
        if op["op"] in ("run", "fwd"):
            jobmap[op["id"]] = op["job"]
    for pos, (op, e) in enumerate(zip(ops, res)):
        if op["op"] == "rng":
            continue
        if e.get("aborted"):
            stats["probes"]["aborted_jobs"] = stats["probes"].get("aborted_jobs", 0) + 1
            continue
        if op.get("abort") and not e.get("abort_fired"):
            pass  # fewer calls than n: job ran to completion, compare normally
        if op["op"] == "fwd":
            j = op["job"]
            ref = reference(j, root)
            if e.get("exc") and not ref["exc"]:
                failures.append(core.fail("fails-in-history", f"op {pos} fwd({j}) raised {e['exc']} but succeeds in a fresh process", pos=pos))
            continue
        ids = [op["id"]] if op["op"] == "run" else op["ids"]
        for i in ids:
            j = jobmap[i]
            ref = reference(j, root)
            if e.get("exc"):
                if ref["exc"] is None:
                    failures.append(core.fail("fails-in-history", f"op {pos} {op['op']}({j}) raised {e['exc']} but the job succeeds in a fresh process; history={_short(ops[: pos + 1])}", pos=pos))
                else:
                    stats["probes"]["rejected_jobs"] = stats["probes"].get("rejected_jobs", 0) + 1
                continue
            if ref["exc"] is not None:
                failures.append(core.fail("succeeds-in-history", f"op {pos} {j}: rejected when run fresh ({ref['exc']}) but accepted after history {_short(ops[:pos])}", pos=pos))
                continue
            got = e["out"].get(i)
            if got is None:
                continue
            stats["jobs_compared"] += 1
            if threads == 1:
                if got["hex"] != ref["out"]["hex"]:
                    worst = _worst(got["vals"], ref["out"]["vals"])
                    kind = "interleaved-backward" if op["op"] == "bwd" else "job"
                    failures.append(
                        core.fail(
                            f"differs-from-fresh/{kind}",
                            f"op {pos} {op['op']}({j}) is not bit-identical to the same job in a fresh process (max rel dev {worst[1]:.3e} in {worst[0]}); history={_short(ops[: pos + 1])}",
                            pos=pos,
                        )
                    )
            else:
                worst = _worst(got["vals"], ref["out"]["vals"])
                stats["max"]["thread_rel_dev"] = max(stats["max"].get("thread_rel_dev", 0.0), worst[1])
                if worst[1] > tol["thread_rel"]:
                    failures.append(core.fail("differs-across-threads", f"op {pos} {j} with {threads} threads deviates {worst[1]:.3e} (rel) in {worst[0]} from the 1-thread result", pos=pos))
    kinds = sorted({op["op"] for op in ops})
    if any(op["op"] == "bwd" and len(op["ids"]) > 1 for op in ops):
        stats["probes"]["summed_backward"] = 1
    nf = sum(1 for op in ops if op["op"] == "fwd")
    if nf:
        stats["probes"]["interleaved_fwd_bwd"] = 1
    if threads > 1:
        stats["probes"]["multi_thread_histories"] = 1
    stats["probes"]["dict_reuse_ops"] = sum(1 for op in ops if op.get("reuse", {}).get("dict"))
    stats["probes"]["driver_reuse_ops"] = sum(1 for op in ops if op.get("reuse", {}).get("driver"))
    sig = [[(op["op"], op.get("job") or op.get("jobs"), bool(op.get("abort")), sorted(k for k, v in op.get("reuse", {}).items() if v)) for op in ops], threads]
    sample = {"ops": ops, "threads": threads, "results": [{k: v for k, v in e.items() if k != "out"} for e in res]}
    dig = core.digest([[e.get("exc"), e.get("aborted"), sorted((k, v["hex"]) for k, v in (e.get("out") or {}).items())] for e in res]) if threads == 1 else None
    return core.Result.make(record, failures, stats, sig=sig, nontrivial=len([o for o in ops if o["op"] != "rng"]) >= 2, sample=sample, digest_=dig)


def _short(ops):
    return [(o["op"], o.get("job") or o.get("jobs"), "".join(k[0] for k, v in o.get("reuse", {}).items() if v) + ("!" if o.get("abort") else "")) for o in ops]


def _worst(a, b):
    w = ("", 0.0)
    for k in a:
        x, y = np.asarray(a[k], dtype=float), np.asarray(b.get(k, []), dtype=float)
        if x.shape != y.shape:
            return (k + ":shape", float("inf"))
        if x.size == 0:
            continue
        d = float(np.max(np.abs(x - y)) / max(np.max(np.abs(y)), 1e-12))
        if d > w[1]:
            w = (k, d)
    return w


class C15(core.Check):
    prop = PROP
    level = "exploration"
    module = "dst.c15"
    budget = {"quick": 170, "thorough": 1700}
    runs = {"quick": 240, "thorough": 5000}
    assumptions = [
        "jobs are sequential public-API calls in one process; concurrent caller threads are outside the statement (it speaks of compute threads)",
        "a driver object is reused only for molecules whose elements it was constructed for",
        "aborts are injected at call boundaries of functions defined under seqm/ (an asynchronous exception between a with-body and its __exit__ is a CPython limitation, not a PYSEQM property)",
        "the native intra-op pool's own interleavings are not controlled; multi-thread strata are compared with tolerance 1e-9, 1-thread strata bit for bit",
    ]

    def plan(self, tier, seed):
        recs = []
        for i in range(self.runs[tier]):
            rng = core.rng_for(seed, PROP, i)
            ops, threads = gen_history(rng)
            recs.append({"i": i, "ops": ops, "threads": threads})
        return recs

    def shrink_candidates(self, rec):
        ops = rec["ops"]
        out = []
        # drop one op (keeping fwd/bwd pairs consistent)
        for j in range(len(ops)):
            o = ops[j]
            if o["op"] == "fwd":
                rest = []
                for p in ops[:j] + ops[j + 1 :]:
                    if p["op"] == "bwd" and o["id"] in p["ids"]:
                        ids = [x for x in p["ids"] if x != o["id"]]
                        jobs = [jj for x, jj in zip(p["ids"], p["jobs"]) if x != o["id"]]
                        if ids:
                            rest.append(dict(p, ids=ids, jobs=jobs))
                    else:
                        rest.append(p)
                out.append(dict(rec, ops=rest))
            elif o["op"] == "bwd":
                continue
            else:
                out.append(dict(rec, ops=ops[:j] + ops[j + 1 :]))
        for j, o in enumerate(ops):
            if o.get("abort"):
                p = dict(o)
                p.pop("abort")
                out.append(dict(rec, ops=ops[:j] + [p] + ops[j + 1 :]))
            for key in ("const", "dict", "driver"):
                if o.get("reuse", {}).get(key):
                    p = copy.deepcopy(o)
                    p["reuse"][key] = False
                    out.append(dict(rec, ops=ops[:j] + [p] + ops[j + 1 :]))
        if rec["threads"] != 1:
            out.append(dict(rec, threads=1))
        return out

    def coverage(self, results, tier):
        sigs, stats = set(), {}
        jobs_seen = set()
        for r in results:
            core.merge_counts(stats, r["stats"])
            if r["sig"] is not None and r["nontrivial"]:
                sigs.add(json.dumps(r["sig"]))
                for o in r["sig"][0]:
                    js = o[1] if isinstance(o[1], list) else [o[1]]
                    jobs_seen.update(j for j in js if j)
        return {
            "evaluations": len(results),
            "distinct_nontrivial": len(sigs),
            "rule": "one evaluation = one seeded call history (2-8 operations over a pool of %d jobs: single points over methods/solvers/spin, CIS/RPA, differentiable jobs split into forward/backward phases, short MD runs, an optimisation, jobs the library rejects) executed in one process with generated reuse of Constants/dictionary/driver, interleavings, call-boundary aborts and thread count, each job compared with its fresh-process result; non-trivial = at least two library operations; distinct = distinct (operation sequence with reuse flags and aborts, thread count)" % len(JOBS),
            "samples": [r["sample"] for r in results if r.get("sample")][:3],
            "jobs_compared_with_fresh_reference": stats.get("jobs_compared", 0),
            "job_pool_size": len(JOBS),
            "jobs_exercised": len(jobs_seen),
            "probes": stats.get("probes", {}),
            "worst_observed": stats.get("max", {}),
            "tolerances_used": core.tolerances()["C15"],
            "components": {"real": ["everything: Molecule, Electronic_Structure, Energy, SCF forward/backward, CIS/RPA, MD engines, steepest descent"], "stub": ["available-memory probe pinned"]},
        }


def main(argv=None):
    return core.main(C15(), argv)
