"""C08 - NVE dynamics: second order, time reversible, momentum conserving, truthful output.

The property is about FAMILIES of runs (dt -> dt/2 -> dt/4 from one phase-space point; forward,
velocity reversal, backward; same run with density reuse / COM removal / a crash+resume in the
middle) and about the recorded history (energies written for a step are those of the positions and
velocities written for that step).  The simulator generates the families, observes momenta at
every step through a wrapper, and checks the HDF5 history against an independent NumPy
velocity-Verlet with its own CODATA unit conversions (stub driver: exact potential known).
"""
import json
import math
import os
import shutil

import numpy as np

from . import core, mdsim, stub

PROP = "C08"
KB_EV = 8.617333262e-5
AMU = 1.66053906660e-27
EV = 1.602176634e-19
KE_SCALE = AMU * 1.0e10 / EV  # amu (A/fs)^2 -> eV
ACC_SCALE = EV / 1e-10 / AMU * 1e-20  # (eV/A)/amu -> A/fs^2


def hook(cfg, tshim, mode):
    import torch

    import seqm.MolecularDynamics as MDm

    rec = {"P": [], "L": [], "Pabs": [], "Labs": [], "pad": 0.0, "mass": None, "x0pad": None}

    def momenta(molecule):
        ms = molecule.mass
        v = molecule.velocities
        x = molecule.coordinates.detach()
        P = (ms * v).sum(1)
        M = ms.sum(1, keepdim=True)
        rc = (ms * x).sum(1, keepdim=True) / M
        L = (ms * torch.linalg.cross(x - rc, v, dim=2)).sum(1)
        sp = (ms * v.norm(dim=2, keepdim=True)).sum((1, 2))
        sl = (ms * v.norm(dim=2, keepdim=True) * (x - rc).norm(dim=2, keepdim=True)).sum((1, 2))
        return P, L, sp, sl

    for cls in (MDm.Molecular_Dynamics_Basic, MDm.XL_BOMD):
        o = cls.__dict__["_do_integrator_step"]

        def make(o):
            def step(self, i, molecule, *a, **kw):
                if rec["mass"] is None:
                    rec["mass"] = molecule.mass.squeeze(-1).tolist()
                    P, L, sp, sl = momenta(molecule)
                    rec["P0"], rec["L0"] = P.clone(), L.clone()
                    rec["x0pad"] = molecule.coordinates.detach().clone()
                r = o(self, i, molecule, *a, **kw)
                P, L, sp, sl = momenta(molecule)
                rec["Pabs"].append(float((P.norm(dim=1) / sp.clamp(min=1e-300)).max()))
                rec["Labs"].append(float((L.norm(dim=1) / sl.clamp(min=1e-300)).max()))
                rec["P"].append(float(((P - rec["P0"]).norm(dim=1) / sp.clamp(min=1e-300)).max()))
                rec["L"].append(float(((L - rec["L0"]).norm(dim=1) / sl.clamp(min=1e-300)).max()))
                pad = molecule.species == 0
                if pad.any():
                    rec["pad"] = max(rec["pad"], float(molecule.velocities[pad].abs().max()), float((molecule.coordinates.detach()[pad] - rec["x0pad"][pad]).abs().max()))
                return r

            return step

        setattr(cls, "_do_integrator_step", make(o))

    def report():
        return {"P": max(rec["P"]) if rec["P"] else 0.0, "L": max(rec["L"]) if rec["L"] else 0.0, "pad": rec["pad"], "mass": rec["mass"], "Pabs": rec["Pabs"], "Labs": rec["Labs"]}

    return {"report": report}


STUB_BATCHES = [["h2o"], ["h2o", "h2"], ["ch4", "hf"], ["nh3"], ["h2co", "h2o"], ["c2h4"]]


PINNED_SWITCH_CROSSING = {"engine": "exc_basic", "kind": "family", "driver": "real", "batch": ["h2co"], "rotate": 275791356, "dt": 0.5, "steps": 30, "scf_eps": 1e-10, "temp": 300.0, "n_states": 3, "seed": 836656, "variants": ["reuse_off", "cadence_mix"], "com_stride": 1}


PINNED_DEGENERATE_EXCITED = {"engine": "exc_basic", "kind": "family", "driver": "real", "batch": ["ch4"], "distort": 0.15, "geom_seed": 7, "dt": 0.5, "steps": 30, "scf_eps": 1e-10, "temp": 300.0, "n_states": 3, "active_state": 1, "variants": ["reuse_off", "cadence_mix"], "com_stride": 1}


# two fragments, AM1-FS1 dispersion switched on, dynamics on S1 (analytical excited-state gradient): the dispersion force must
# be counted exactly once by every gradient path (seeded change c08f counted it twice on excited states only)
PINNED_DISPERSION_EXCITED = {"engine": "exc_basic", "kind": "family", "driver": "real", "batch": ["h2co_h2"], "dispersion": True, "method": "AM1", "dt": 0.4, "steps": 20, "scf_eps": 1e-10, "temp": 300.0, "n_states": 3, "active_state": 1, "variants": [], "com_stride": 1}


def gen(rng, tier, i):
    real_frac = 0.03 if tier == "quick" else 0.06
    u = rng.random()
    cfg = {"engine": "basic", "kind": "family"}
    if u < real_frac or i == 0:
        cfg["driver"] = "real"
        cfg["batch"] = rng.choice([["h2o"], ["h2co"], ["h2o", "hf"]])
        cfg["rotate"] = rng.randrange(1 << 30)
        if i == 0:
            # the documentation-style axis-aligned start geometry (committed known finding)
            cfg["batch"] = ["h2o"]
            cfg["rotate"] = None
            cfg["dt"] = 0.4
            cfg["steps"] = 40
        else:
            cfg["dt"] = rng.choice([0.4, 0.5])
            cfg["steps"] = rng.choice([40, 60])
        cfg["scf_eps"] = 1e-10
        cfg["temp"] = 300.0
        if rng.random() < 0.4 and i != 0:
            # excited active surface; methane has a triply degenerate HOMO whose members change order along the trajectory
            cfg.update(engine="exc_basic", batch=rng.choice([["h2co"], ["ch4"], ["ch4"]]), n_states=3, steps=30, active_state=rng.randint(1, 2))
            if cfg["batch"] == ["ch4"]:
                # start away from the tetrahedral geometry: there the three lowest excited states are degenerate (a
                # conical intersection), adiabatic dynamics on "state 1" is not smooth and no dt-convergence is owed
                cfg.update(distort=0.15, geom_seed=rng.randrange(1 << 20))
    else:
        cfg["driver"] = "stub"
        cfg["batch"] = rng.choice(STUB_BATCHES)
        pot = rng.choice(["harm", "morse"])
        # keep omega*dt <= ~0.15 so that the dt -> 0 asymptotics (ratio 4) is what is measured
        cfg["stub"] = {"pot": pot, "k": rng.choice([2.0, 4.0, 8.0]), "r0": rng.choice([1.4, 1.8]), "D": 1.5, "a": rng.choice([1.0, 1.4]), "gamma": 0.3}
        st_ = cfg["stub"]
        keff = st_["k"] if pot == "harm" else 2.0 * st_["D"] * st_["a"] ** 2
        nmax = max(len(mdsim.POOL[m][0]) for m in cfg["batch"])
        wmax = math.sqrt(2.0 * (nmax - 1) * keff * ACC_SCALE / 1.008)  # crude upper bound of the fastest frequency (1/fs)
        cfg["dt"] = float(f"{rng.choice([0.01, 0.02, 0.04]) / wmax:.3g}")
        cfg["steps"] = rng.choice([48, 64, 96, 128])
        cfg["temp"] = rng.choice([100.0, 300.0])
        if rng.random() < 0.3:
            cfg["extra_pad"] = 1
            cfg["pad_coords"] = True
    cfg["seed"] = rng.randrange(1 << 20)
    small = any(len(mdsim.POOL[m][0]) <= 2 for m in cfg["batch"])
    variants = ["reuse_off"]
    variants.append(rng.choice(["com_linear"] if small else ["com_linear", "com_angular"]))
    variants.append("com_moving_linear" if small else rng.choice(["com_moving_linear", "com_moving_angular"]))
    if rng.random() < 0.5:
        variants.append("crash_resume")
    if rng.random() < 0.5:
        variants.append("reused_driver")
    cfg["variants"] = (variants if cfg["driver"] == "stub" else variants[:1]) + ["cadence_mix"]
    # output cadences of the cadence_mix member: scalar consumers (data, xyz, screen) that are not multiples of one another
    cfg["cad"] = {"data": rng.choice([2, 3, 5]), "xyz": rng.choice([2, 3, 4, 7]), "print": rng.choice([0, 0, 4, 7]), "forces": rng.choice([0, 1, 3])}
    cfg["com_stride"] = rng.randint(1, 5)
    return cfg


def member(cfg, factor=1, **over):
    """Configuration of one family member: dt/factor, steps*factor, rows at the common times."""
    nm = len(cfg["batch"])
    c = {k: v for k, v in cfg.items() if k not in ("variants", "kind", "com_stride", "cad")}
    c["dt"] = cfg["dt"] / factor
    c["steps"] = cfg["steps"] * factor
    c["out"] = {"molid": list(range(nm)), "print": 0, "ckpt": 0, "xyz": 0, "h5": {"data": factor, "coordinates": factor, "velocities": factor, "forces": factor}}
    c["reuse_P"] = True
    c["remove_com"] = None
    c.update(over)
    return c


def execute(record):
    root = core.make_scratch(f"c08-{record.get('i', 0)}-{core.digest(record)}")
    try:
        return _execute(record, root)
    finally:
        shutil.rmtree(root, ignore_errors=True)


def _run(cfg, root, name, crashes=()):
    d = os.path.join(root, name)
    os.makedirs(d)
    opts = {"io_seam": False, "child_hook": "dst.c08:hook"}
    inc, mode, q = 0, "fresh", list(crashes)
    reps = []
    while True:
        f = q.pop(0) if q else None
        r = mdsim.run_incarnation(cfg, d, inc, f, mode, opts, timeout=1500)
        reps.append(r)
        if r["status"] == 3 and (r.get("exc") or {}).get("type") == "InjectedCrash":
            inc, mode = inc + 1, "resume"
            continue
        break
    if r["status"] != 0:
        return d, None, reps
    data, problems = mdsim.dump_files(d, cfg)
    return d, data, reps


def _series(data, m):
    g = lambda k: data[f"{m}:h5:{k}"]
    return g("data/steps"), g("coordinates/values"), g("velocities/values"), g("forces/values"), g("data/thermo/Ek"), g("data/thermo/Ep"), g("data/thermo/T")


def _child_single_points(cfg, coords):
    """Fresh objects, no history: the potential energy (active surface) at the given coordinates of molecule 0..n."""
    import torch

    from seqm.ElectronicStructure import Electronic_Structure
    from seqm.Molecule import Molecule
    from seqm.seqm_functions.constants import Constants

    torch.set_num_threads(1)
    torch.set_default_dtype(torch.float64)
    sp_np, _ = mdsim.build_batch(cfg)
    out = []
    for x in coords:
        sp = mdsim.seqm_parameters(cfg)
        mol = Molecule(Constants(), sp, torch.as_tensor(np.array(x)), torch.as_tensor(sp_np, dtype=torch.int64))
        mol.verbose = False
        Electronic_Structure(sp)(mol)
        out.append(mol.Etot.detach().tolist())
    return out


def np_verlet(x, v, mass, real, p, dt, steps):
    """Independent velocity Verlet for the stub potential (own unit conversions)."""
    inv = np.where(mass > 0, 1.0 / np.where(mass > 0, mass, 1.0), 0.0)[:, None]
    E, F = stub.np_energy_forces(x, real, p)
    a = F * inv * ACC_SCALE
    xs, vs, es = [x.copy()], [v.copy()], [E]
    for _ in range(steps):
        v = v + 0.5 * a * dt
        x = x + v * dt
        E, F = stub.np_energy_forces(x, real, p)
        a = F * inv * ACC_SCALE
        v = v + 0.5 * a * dt
        xs.append(x.copy())
        vs.append(v.copy())
        es.append(E)
    return np.array(xs), np.array(vs), np.array(es)


def _execute(record, root):
    tol = core.tolerances()["C08"]
    cfg = record["cfg"]
    failures, stats = [], {"probes": {}, "members": 0, "rows_checked": 0, "max": {}}
    mx = stats["max"]

    def worst(k, v):
        mx[k] = max(mx.get(k, 0.0), float(v))

    real_drv = cfg["driver"] == "real"
    aligned = real_drv and cfg.get("rotate") is None
    cls = {"site": "axis-aligned-start"} if aligned else {"site": "other"}
    nm = len(cfg["batch"])
    sp, _ = mdsim.build_batch(cfg)
    fam = {}
    for f in (1, 2, 4):
        d, data, reps = _run(member(cfg, f), root, f"dt{f}")
        stats["members"] += 1
        if data is None:
            failures.append(core.fail("run-failed", f"NVE run raised {reps[-1].get('exc')}", classify=cls))
            return core.Result.make(record, failures, stats, sig=None, nontrivial=False)
        fam[f] = (data, reps[-1]["report"]["hook"])
    base, hk = fam[1]
    mass_all = np.array(hk["mass"])
    S, dt = cfg["steps"], cfg["dt"]

    # ---- invariants observed while the runs proceeded -------------------------------------------
    for f, (_, h) in fam.items():
        worst("P_drift_rel", h["P"])
        worst("L_drift_rel", h["L"])
        if h["P"] > tol["mom_rel"] * (1e4 if real_drv else 1):
            failures.append(core.fail("linear-momentum", f"total linear momentum drifts by {h['P']:.2e} (relative to sum m|v|) at dt={dt / f}", classify=cls))
        # real SEQM forces carry a residual torque at SCF-threshold level (1e-7 relative observed at eps 1e-10,
        # more on excited surfaces); the defects this guards against are at 1e-3..1e-2
        if h["L"] > tol["mom_rel"] * (1e6 if real_drv else 1):
            failures.append(core.fail("angular-momentum", f"total angular momentum drifts by {h['L']:.2e} (relative) at dt={dt / f}", classify=cls))
        if h["pad"] > 0:
            failures.append(core.fail("padding-moves", f"padding atoms moved/accelerated ({h['pad']:.2e})", classify=cls))

    if real_drv:
        # ---- truthful output on the real driver: a fresh single point (new objects, no trajectory history) at the
        # positions written for a step reproduces the potential energy written for that step
        st_all = _series(base, 0)[0]
        rows = sorted({0, len(st_all) // 3, (2 * len(st_all)) // 3, len(st_all) - 1})
        nmax = sp.shape[1]
        coords = []
        for r_ in rows:
            xx = np.zeros((nm, nmax, 3))
            for m in range(nm):
                xm = _series(base, m)[1][r_]
                xx[m, : xm.shape[0]] = xm
            coords.append(xx.tolist())
        stc, payload = core.run_in_child(_child_single_points, (member(cfg, 1), coords), timeout=900, stdout_path=os.path.join(root, "sp.txt"))
        if stc == 0 and payload and "ok" in payload:
            for r_, e_fresh in zip(rows, payload["ok"]):
                for m in range(nm):
                    ep_w = float(_series(base, m)[5][r_])
                    dev = abs(ep_w - e_fresh[m])
                    worst("Ep_written_vs_fresh_single_point_eV", dev)
                    stats["rows_checked"] += 1
                    if dev > tol["ep_fresh_abs_real"]:
                        failures.append(core.fail("potential-energy-of-other-step", f"mol {m}: the potential energy written for step {int(st_all[r_])} ({ep_w:.9f} eV) is not the energy of the positions written for that step (a fresh single point there gives {e_fresh[m]:.9f} eV, difference {dev:.3e}); engine {cfg['engine']}", classify=cls))
                        break
        else:
            failures.append(core.fail("run-failed", f"fresh single point at written positions raised {str(payload)[:300]}", classify=cls))
    e1s, e2s, f1s, f2s = [], [], [], []
    for m in range(nm):
        nat = int((sp[m] > 0).sum())
        ms = mass_all[m][:nat]
        ser = {f: _series(fam[f][0], m) for f in fam}
        st, x, v, F, Ek, Ep, T = ser[1]
        # ---- truthful output: the energies written for a step are those of the rows written for it ----
        ek_ind = 0.5 * (ms[None, :, None] * v * v).sum((1, 2)) * KE_SCALE
        dev = np.abs(ek_ind - Ek).max() / max(np.abs(Ek).max(), 1e-300)
        worst("Ek_vs_written_velocities", dev)
        stats["rows_checked"] += len(st)
        if dev > tol["const_rel"]:
            bad = int(np.argmax(np.abs(ek_ind - Ek)))
            failures.append(core.fail("kinetic-energy-of-other-step", f"mol {m}: written Ek differs from 1/2 sum m v^2 of the velocities written for the same step by {dev:.2e} (first at step {st[bad]})", classify=cls))
        ndof = 3.0 * nat
        t_ind = 2.0 * ek_ind / (ndof * KB_EV)
        devT = np.abs(t_ind - T).max() / max(np.abs(T).max(), 1e-300)
        worst("T_vs_written_velocities", devT)
        if devT > tol["const_rel"]:
            failures.append(core.fail("temperature-inconsistent", f"mol {m}: written T differs from 2Ek/(3N kB) of the written velocities by {devT:.2e}", classify=cls))
        if not real_drv:
            p = dict(stub.DEFAULT)
            p.update(cfg["stub"])
            real_mask = np.ones(nat, dtype=bool)
            ep_ind = np.array([stub.np_energy_forces(x[i], real_mask, p)[0] for i in range(len(st))])
            devp = np.abs(ep_ind - Ep).max() / max(np.abs(Ep).max(), 1e-12)
            worst("Ep_vs_written_positions", devp)
            if devp > tol["ep_rel"]:
                failures.append(core.fail("potential-energy-of-other-step", f"mol {m}: written Ep is not the potential at the positions written for the same step (dev {devp:.2e})"))
            f_ind = np.array([stub.np_energy_forces(x[i], real_mask, p)[1] for i in (0, len(st) // 2, len(st) - 1)])
            devf = np.abs(f_ind - F[[0, len(st) // 2, len(st) - 1]]).max() / max(np.abs(F).max(), 1e-12)
            if devf > tol["ep_rel"]:
                failures.append(core.fail("forces-of-other-step", f"mol {m}: written forces are not those at the written positions (dev {devf:.2e})"))
            # ---- reference model: independent velocity Verlet from the written step-0 row ----------
            nref = min(S, 48)  # short window: the 4e-8 difference in unit constants must not be amplified
            xr, vr, er = np_verlet(x[0], v[0], ms, real_mask, p, dt, nref)
            amp = max(np.abs(x[: nref + 1] - x[0]).max(), 1e-6)
            devx = np.abs(xr - x[: nref + 1]).max() / amp
            worst("engine_vs_reference_verlet", devx)
            if devx > tol["verlet_rel"]:
                first = int(np.argmax(np.abs(xr - x[: nref + 1]).reshape(nref + 1, -1).max(1) > tol["verlet_rel"] * amp))
                failures.append(core.fail("not-velocity-verlet", f"mol {m}: trajectory deviates from an independent velocity-Verlet (own unit conversions) by {devx:.2e} of the displacement amplitude, first at step {first}"))
        # ---- order: errors and energy fluctuation under dt halving -----------------------------------
        x2, x4 = ser[2][1], ser[4][1]
        e1s.append(np.abs(x - x2).max())
        e2s.append(np.abs(x2 - x4).max())
        Et = {f: ser[f][4] + ser[f][5] for f in ser}
        fl = {f: Et[f].max() - Et[f].min() for f in Et}
        f1s.append((fl[1], fl[2], fl[4]))
        # drift: |slope * N| below the fluctuation amplitude
        n = len(Et[1])
        slope = np.polyfit(np.arange(n), Et[1], 1)[0]
        worst("drift_over_fluctuation", abs(slope * n) / max(fl[1], 1e-300))
        if abs(slope * n) > tol["drift_over_fluct"] * fl[1] and fl[1] > 1e-10:
            failures.append(core.fail("energy-drift", f"mol {m}: secular energy drift {slope * n:.3e} eV over the run exceeds the fluctuation amplitude {fl[1]:.3e}", classify=cls))
    r_traj = max(e1s) / max(max(e2s), 1e-300)
    lo, hi = tol["order_ratio"]
    floor = 1e-9 if not real_drv else 1e-7
    if max(e2s) > floor:
        worst("traj_ratio_dev_from_4", abs(r_traj - 4))
        if not (lo <= r_traj <= hi):
            failures.append(core.fail("trajectory-order", f"trajectory error ratio under dt halving is {r_traj:.2f} (dt vs dt/2: {max(e1s):.3e}, dt/2 vs dt/4: {max(e2s):.3e}); second order means 4", classify=cls))
    for m, (a, b, c) in enumerate(f1s):
        if c > (1e-10 if not real_drv else 1e-8):
            r1, r2 = a / b, b / c
            worst("fluct_ratio_dev_from_4", max(abs(r1 - 4), abs(r2 - 4)))
            if not (lo <= r1 <= hi and lo <= r2 <= hi):
                failures.append(core.fail("energy-fluctuation-order", f"mol {m}: total-energy fluctuation at dt, dt/2, dt/4 = {a:.3e}, {b:.3e}, {c:.3e} eV (ratios {r1:.2f}, {r2:.2f}); second order means 4", classify=cls))

    # ---- time reversal ---------------------------------------------------------------------------
    init = {"coords": [], "vel": []}
    for m in range(nm):
        st, x, v, *_ = _series(base, m)
        init["coords"].append(x[-1].tolist())
        init["vel"].append((-v[-1]).tolist())
    back_cfg = member(cfg, 1, init=init, temp=0.0)
    d, back, reps = _run(back_cfg, root, "back")
    stats["members"] += 1
    if back is None:
        failures.append(core.fail("run-failed", f"reversed run raised {reps[-1].get('exc')}", classify=cls))
    else:
        for m in range(nm):
            st, x, v, *_ = _series(base, m)
            sb, xb, vb, *_ = _series(back, m)
            amp = max(np.abs(x - x[0]).max(), 1e-6)
            dx = np.abs(xb[-1] - x[0]).max() / amp
            dv = np.abs(vb[-1] + v[0]).max() / max(np.abs(v).max(), 1e-300)
            worst("reversal_dx_rel_real" if real_drv else "reversal_dx_rel", dx)
            worst("reversal_dv_rel_real" if real_drv else "reversal_dv_rel", dv)
            bound = tol["reversal_rel_real"] if real_drv else tol["reversal_rel"]
            if dx > bound or dv > bound:
                failures.append(core.fail("not-time-reversible", f"mol {m}: after {S} steps forward, velocity reversal and {S} steps back the system misses its start by {dx:.2e} (positions, relative to the displacement amplitude) / {dv:.2e} (velocities)", classify=cls))
            # the whole backward path retraces the forward one
            mid = np.abs(xb[::-1] - x).max() / amp
            if mid > bound:
                failures.append(core.fail("not-time-reversible", f"mol {m}: the backward trajectory does not retrace the forward one (max deviation {mid:.2e})", classify=cls))

    # ---- variants that must not change the trajectory --------------------------------------------
    for var in cfg.get("variants", []):
        if var == "reuse_off":
            c = member(cfg, 1, reuse_P=False)
            crashes = ()
        elif var == "reused_driver":
            # the same MD driver object first ran another batch of the same shape (other elements, other masses)
            pre = mdsim.same_shape_batch(cfg["batch"], core.rng_for("c08reuse", cfg["seed"]))
            c = member(cfg, 1, pre_run={"batch": pre, "steps": 3})
            crashes = ()
        elif var == "cadence_mix":
            # the same run with thermodynamic data, XYZ frames and screen lines at cadences that are not multiples
            # of one another (positions and velocities still every step): every row and frame written must carry
            # the energies of the positions and velocities written for ITS step
            cad = cfg.get("cad") or {"data": 3, "xyz": 2, "print": 0, "forces": 1}
            c = member(cfg, 1)
            c["out"].update(print=cad["print"], xyz=cad["xyz"])
            c["out"]["h5"].update(data=cad["data"], forces=cad["forces"])
            written = list(range(nm))
            if nm > 1:
                # only a subset of the batch is written out, and not in batch order: each file must still carry the
                # energies of ITS molecule (the velocities and positions in the same file)
                written = core.rng_for("c08molid", cfg["seed"]).choice([[nm - 1], list(range(nm))[::-1], [nm - 1, 0]])
                c["out"]["molid"] = written
                stats["probes"]["cadence_mix_molid_subset"] = 1
            d, data, reps = _run(c, root, var)
            stats["members"] += 1
            stats["probes"][f"variant_{var}"] = 1
            if data is None:
                failures.append(core.fail("run-failed", f"variant {var} raised {reps[-1].get('exc')}", classify=cls))
                continue
            for m in written:
                nat = int((sp[m] > 0).sum())
                ms = mass_all[m][:nat]
                st0, x0, v0, _, Ek0, Ep0, T0 = _series(base, m)
                g = lambda k: data[f"{m}:h5:{k}"]
                st, Ek, Ep, T = g("data/steps"), g("data/thermo/Ek"), g("data/thermo/Ep"), g("data/thermo/T")
                vs, vv, xs, xx = g("velocities/steps"), g("velocities/values"), g("coordinates/steps"), g("coordinates/values")
                if st.tolist() != [s_ for s_ in range(0, S + 1) if s_ % cad["data"] == 0] or vs.tolist() != list(range(S + 1)):
                    failures.append(core.fail("cadence-mix-labels", f"mol {m}: data rows at {st.tolist()[:10]}, velocity rows at {vs.tolist()[:6]} (data every {cad['data']})", classify=cls))
                    continue
                if np.abs(xx - x0).max() > 0 or np.abs(vv - v0).max() > 0:
                    failures.append(core.fail("trajectory-changed-by/cadence_mix", f"mol {m}: changing output cadences changed the trajectory by {np.abs(xx - x0).max():.2e}", classify=cls))
                    continue
                idx = st.astype(int)
                ek_ind = 0.5 * (ms[None, :, None] * vv[idx] ** 2).sum((1, 2)) * KE_SCALE
                dev = np.abs(ek_ind - Ek).max() / max(np.abs(Ek0).max(), 1e-300)
                devT = np.abs(T - T0[idx]).max() / max(np.abs(T0).max(), 1e-300)
                devp = np.abs(Ep - Ep0[idx]).max() / max(np.abs(Ep0).max(), 1e-12)
                worst("cadence_mix_Ek_vs_written_velocities", dev)
                worst("cadence_mix_Ep_vs_step", devp)
                stats["rows_checked"] += len(st)
                if dev > tol["const_rel"] or devT > tol["const_rel"]:
                    bad = int(np.argmax(np.abs(ek_ind - Ek)))
                    failures.append(core.fail("kinetic-energy-of-other-step", f"mol {m}: with data every {cad['data']}, xyz every {cad['xyz']}, screen every {cad['print']}: written Ek/T differ from those of the velocities written for the same step by {dev:.2e}/{devT:.2e} (first at step {st[bad]})", classify=cls))
                if devp > tol["const_rel"]:
                    bad = int(np.argmax(np.abs(Ep - Ep0[idx])))
                    failures.append(core.fail("potential-energy-of-other-step", f"mol {m}: with data every {cad['data']}, xyz every {cad['xyz']}, screen every {cad['print']}: written Ep is not the potential of the positions written for the same step (dev {devp:.2e}, first at step {st[bad]})", classify=cls))
                # XYZ comment lines: E_total of the frame's own step (9 printed decimals)
                raw = data.get(f"{m}:xyz:raw")
                if raw is None:
                    failures.append(core.fail("cadence-mix-labels", f"mol {m}: no XYZ file although xyz every {cad['xyz']}", classify=cls))
                    continue
                et = {}
                for ln in raw.decode(errors="replace").split("\n"):
                    if ln.startswith("step:"):
                        t = ln.split()
                        et.setdefault(int(t[1]), float(t[4]))
                due = [s_ for s_ in range(0, S + 1) if s_ % cad["xyz"] == 0]
                if sorted(et) != due:
                    failures.append(core.fail("cadence-mix-labels", f"mol {m}: XYZ frames at {sorted(et)[:10]} but due {due[:10]}", classify=cls))
                    continue
                devx = max(abs(et[s_] - (Ek0[s_] + Ep0[s_])) for s_ in due)
                worst("cadence_mix_xyz_Etotal_abs", devx)
                stats["rows_checked"] += len(due)
                if devx > 2.0e-9 + 1e-12 * abs(Ep0).max():
                    bad = [s_ for s_ in due if abs(et[s_] - (Ek0[s_] + Ep0[s_])) > 2.0e-9 + 1e-12 * abs(Ep0).max()]
                    failures.append(core.fail("xyz-energy-of-other-step", f"mol {m}: with data every {cad['data']}, xyz every {cad['xyz']}, screen every {cad['print']}: E_total on the XYZ frames of steps {bad[:6]} is not Ek+Ep of those steps (max dev {devx:.2e} eV)", classify=cls))
            continue
        elif var in ("com_linear", "com_angular"):
            # start from the base run's step-0 phase-space point (P = L = 0 there): periodic removal is then
            # mathematically a no-op.  (A fresh draw would legitimately differ: the degrees of freedom count
            # enters the initial rescaling.)
            start = {"coords": [_series(base, m)[1][0].tolist() for m in range(nm)], "vel": [_series(base, m)[2][0].tolist() for m in range(nm)]}
            c = member(cfg, 1, remove_com=[var[4:], cfg["com_stride"]], init=start)
            crashes = ()
        elif var in ("com_moving_linear", "com_moving_angular"):
            # a molecule away from the origin, translating and rotating as a whole (user-supplied velocities):
            # the first removal must zero P (and L), and NVE dynamics must keep them zero afterwards
            rr = core.rng_for("c08moving", cfg["seed"])
            start = {"coords": [], "vel": []}
            for m in range(nm):
                x = _series(base, m)[1][0]
                v = _series(base, m)[2][0]
                shift = np.array([rr.uniform(-3, 3) for _ in range(3)])
                vt = np.array([rr.uniform(-0.01, 0.01) for _ in range(3)])
                om = np.array([rr.uniform(-0.01, 0.01) for _ in range(3)])
                start["coords"].append((x + shift).tolist())
                start["vel"].append((v + vt + np.cross(om, x)).tolist())
            c = member(cfg, 1, remove_com=[var[11:], cfg["com_stride"]], init=start)
            d, data, reps = _run(c, root, var)
            stats["members"] += 1
            stats["probes"][f"variant_{var}"] = 1
            if data is None:
                failures.append(core.fail("run-failed", f"variant {var} raised {reps[-1].get('exc')}", classify=cls))
                continue
            h = reps[-1]["report"]["hook"]
            # the wrapper observes right after the integrator step, i.e. BEFORE the run loop's removal of the
            # same step: the first observation is legitimately non-zero, every later one must vanish
            pw = max(h["Pabs"][1:]) if len(h["Pabs"]) > 1 else 0.0
            lw = max(h["Labs"][1:]) if len(h["Labs"]) > 1 else 0.0
            worst("Pabs_after_removal" + ("_real" if real_drv else ""), pw)
            bound = tol["mom_rel"] * (1e4 if real_drv else 100)
            if pw > bound:
                failures.append(core.fail("momentum-after-com-removal", f"{var} (stride {cfg['com_stride']}): |P|/sum m|v| reaches {pw:.2e} although linear momentum is removed at step 1 and NVE conserves it", classify=cls))
            if var.endswith("angular"):
                worst("Labs_after_removal" + ("_real" if real_drv else ""), lw)
                if lw > tol["mom_rel"] * (1e5 if real_drv else 1000):
                    failures.append(core.fail("angular-momentum-after-com-removal", f"{var} (stride {cfg['com_stride']}): |L|/sum m|v||r| reaches {lw:.2e} although angular momentum is removed at step 1 and NVE conserves it", classify=cls))
            continue
        else:
            c = member(cfg, 1)
            c["out"]["ckpt"] = max(2, S // 5)
            crashes = [{"kind": "soft", "clock": "step", "step": S // 2 + 1, "off": 0}]
        d, data, reps = _run(c, root, var, crashes)
        stats["members"] += 1
        stats["probes"][f"variant_{var}"] = 1
        if data is None:
            failures.append(core.fail("run-failed", f"variant {var} raised {reps[-1].get('exc')}", classify=cls))
            continue
        for m in range(nm):
            st, x, v, *_ = _series(base, m)
            sv, xv, vv, *_ = _series(data, m)
            amp = max(np.abs(x - x[0]).max(), 1e-6)
            dev = np.abs(xv - x).max() / amp
            exact = var in ("crash_resume", "reused_driver") or (var == "reuse_off" and not real_drv)
            bound = 0.0 if exact else (tol["variant_rel_real"] if real_drv else tol["variant_rel"])
            worst(f"variant_{var}_dev", dev)
            if dev > bound:
                failures.append(core.fail(f"trajectory-changed-by/{var}", f"mol {m}: {var} changes the NVE trajectory by {dev:.2e} (relative to the displacement amplitude); it must not", classify=cls))

    sig = [cfg["driver"], cfg["engine"], cfg["batch"], cfg["dt"], cfg["steps"], cfg.get("stub", {}).get("pot"), cfg.get("extra_pad", 0), cfg.get("variants")]
    stats["sim_time_fs"] = S * dt * (3 + 1 + len(cfg.get("variants", [])))
    if aligned:
        stats["probes"]["axis_aligned_real_start"] = 1
    if real_drv:
        stats["probes"]["real_driver_families"] = 1
    sample = {"cfg": cfg, "trajectory_error_ratio": r_traj, "fluctuations_eV": [list(map(float, f)) for f in f1s]}
    return core.Result.make(record, failures, stats, sig=sig, nontrivial=True, sample=sample, digest_=mdsim.files_digest(base))


class C08(core.Check):
    prop = PROP
    level = "exploration"
    module = "dst.c08"
    budget = {"quick": 200, "thorough": 1700}
    runs = {"quick": 48, "thorough": 900}
    per_task_timeout = 2400
    assumptions = [
        "order, reversibility and conservation are decided on the real integrator with a stub potential whose exact forces are known; real SEQM families (randomly rotated geometry, eps 1e-10) check the ratios, drift and reversibility only",
        "frozen ratio window [3.0, 5.5] for dt-halving (second order = 4)",
        "runs of 40-130 steps: long-time (ps) drift is not reached",
    ]

    def plan(self, tier, seed):
        recs = [{"i": i, "cfg": gen(core.rng_for(seed, PROP, i), tier, i)} for i in range(self.runs[tier])]
        # pinned history (found by the seed-777 soak, fixed by d7687a5 in /repo): excited-state BOMD whose C-H distance
        # passes through the |x| = 0.5 switch of the overlap's B functions exactly at a step of the dt/4 member
        recs[1] = {"i": 1, "cfg": dict(PINNED_SWITCH_CROSSING, cad=recs[1]["cfg"]["cad"])}
        # pinned family: excited-state BOMD of methane (triply degenerate HOMO: the members change energetic order along
        # the trajectory, which exercises the orbital tracking between steps)
        recs[2] = {"i": 2, "cfg": dict(PINNED_DEGENERATE_EXCITED, cad=recs[2]["cfg"]["cad"], seed=recs[2]["cfg"]["seed"], rotate=recs[2]["cfg"].get("rotate") or 12345)}
        recs[3] = {"i": 3, "cfg": dict(PINNED_DISPERSION_EXCITED, cad=recs[3]["cfg"]["cad"], seed=recs[3]["cfg"]["seed"], rotate=recs[3]["cfg"].get("rotate") or 2468)}
        return recs

    def shrink_candidates(self, rec):
        cfg = rec["cfg"]
        out = []
        cp = lambda: json.loads(json.dumps(cfg))
        if len(cfg["batch"]) > 1:
            c = cp()
            c["batch"] = cfg["batch"][:1]
            out.append({"i": rec["i"], "cfg": c})
        if cfg.get("variants"):
            for j in range(len(cfg["variants"])):
                c = cp()
                c["variants"] = cfg["variants"][:j] + cfg["variants"][j + 1 :]
                out.append({"i": rec["i"], "cfg": c})
        if cfg["steps"] > 16:
            c = cp()
            c["steps"] = cfg["steps"] // 2
            out.append({"i": rec["i"], "cfg": c})
        if cfg.get("extra_pad"):
            c = cp()
            c.pop("extra_pad")
            c.pop("pad_coords", None)
            out.append({"i": rec["i"], "cfg": c})
        return out

    def coverage(self, results, tier):
        sigs, stats = set(), {}
        for r in results:
            core.merge_counts(stats, r["stats"])
            if r["sig"] is not None:
                sigs.add(json.dumps(r["sig"]))
        return {
            "evaluations": len(results),
            "distinct_nontrivial": len(sigs),
            "rule": "one evaluation = one family of runs from one seeded phase-space point: dt, dt/2, dt/4; forward/reversed; variants (density reuse off, periodic COM removal, crash+resume) - every family is non-trivial (>= 5 related runs); distinct = distinct (driver, engine, batch, dt, steps, potential, padding, variants)",
            "samples": [r["sample"] for r in results if r.get("sample")][:3],
            "family_members_run": stats.get("members", 0),
            "history_rows_checked": stats.get("rows_checked", 0),
            "probes": stats.get("probes", {}),
            "worst_observed": stats.get("max", {}),
            "tolerances_used": core.tolerances()["C08"],
            "simulated_time_fs": stats.get("sim_time_fs", 0),
            "components": {"real": ["Molecular_Dynamics_Basic.run/one_step/initialize, thermo bookkeeping, HDF5 writer, checkpoint/resume", "Electronic_Structure in the real-driver families"], "stub": ["electronic structure (analytic pair potential) in the stub families"]},
        }


def main(argv=None):
    return core.main(C08(), argv)
