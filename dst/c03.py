"""C03 - a converged SCF result is self-consistent; failure is flagged; calls terminate.

An SCF *session*: one batch (neutral, ions, open shells, zero-padded mixtures) followed through a
seeded history of MOVE / SOLVE(config, start) / FAULT(kind, sigma) operations with the density
carried from solve to solve, iteration caps as a knob.  Liveness: every solve runs under a
line-event clock (bounded liveness in simulated time, replayable).  Safety: per molecule flagged
converged, residuals of the returned density within K x tau.
"""
import json
import os
import shutil

from . import core, scfsim

PROP = "C03"


def execute(record):
    root = core.make_scratch(f"c03-{record.get('i', 0)}-{core.digest(record)}")
    try:
        return _execute(record, root)
    finally:
        shutil.rmtree(root, ignore_errors=True)


def _execute(record, root):
    tol = core.tolerances()["C03"]
    failures, stats = [], {"probes": {}, "solves": 0, "converged_molecules_checked": 0, "max": {}}
    mx = stats["max"]
    out, err = scfsim.run_session(record, root)
    if out is None:
        failures.append(core.fail("session-died", f"the process running the SCF session died: {str(err)[:400]}"))
        return core.Result.make(record, failures, stats, sig=None, nontrivial=False)
    names = record["batch"]
    for k, e in enumerate(out):
        c = e["op"]["cfg"]
        tag = f"solve {k} batch={names} {record['method']} conv={c['conv']} sp2={c['sp2']} eps={c['eps']} uhf={c['uhf']} backward={c.get('backward', 0)} forces={c.get('grad', 'autodiff')} excited_states_tol={c.get('exc')} start={e['start']}({e.get('from')}) cap={e['op'].get('cap')}"
        stats["solves"] += 1
        if e.get("nonterminating"):
            failures.append(core.fail("nontermination", f"{tag}: no return within {scfsim.LINE_BUDGET} line events of library code; clock ran out at {e['nonterminating']}"))
            break
        if e.get("exc"):
            stats["probes"]["solves_that_raised"] = stats["probes"].get("solves_that_raised", 0) + 1
            continue
        mx["lines_per_solve"] = max(mx.get("lines_per_solve", 0), e["lines"])
        tau = scfsim.tau_of(c)
        if not e["finite"]:
            if not all(e["notconverged"]):
                failures.append(core.fail("nonfinite-unflagged", f"{tag}: NaN/inf in the results but notconverged={e['notconverged']}"))
            continue
        for m, (r, nc) in enumerate(zip(e["res"], e["notconverged"])):
            if nc:
                stats["probes"]["flagged_not_converged"] = stats["probes"].get("flagged_not_converged", 0) + 1
                if e["op"].get("cap", 1000) < 1000:
                    stats["probes"]["cap_reached"] = stats["probes"].get("cap_reached", 0) + 1
                continue
            if c["conv"][0] == 3:
                stats["probes"]["krylov_solves_checked"] = stats["probes"].get("krylov_solves_checked", 0) + 1
                if not scfsim.thermally_cold(c, r["gap"]):
                    stats["probes"]["krylov_thermal_smearing_skipped"] = stats["probes"].get("krylov_thermal_smearing_skipped", 0) + 1
                    continue
            if record["method"] == "PM6":
                stats["probes"]["pm6_d_molecules_checked"] = stats["probes"].get("pm6_d_molecules_checked", 0) + 1
            if c.get("exc"):
                stats["probes"]["molecules_checked_with_excited_states_requested"] = stats["probes"].get("molecules_checked_with_excited_states_requested", 0) + 1
            if c.get("backward"):
                stats["probes"][f"backward_{c['backward']}_molecules_checked"] = stats["probes"].get(f"backward_{c['backward']}_molecules_checked", 0) + 1
            stats["converged_molecules_checked"] += 1
            degenerate = r["gap"] < 1e-3
            mx["sym_over_tau"] = max(mx.get("sym_over_tau", 0.0), r["sym"] / tau)
            checks = [("symmetry", r["sym"], tol["K_sym"] * tau + tol["floor"], True), ("padding-density", r["pad"], tol["pad_abs"], False)]
            for name, key, K in (("trace", "trace", "K_trace"), ("charge-sum", "charge_sum", "K_trace"), ("idempotency", "idem", "K_idem"), ("commutator", "comm", "K_comm"), ("energy-functional", "Eelec", "K_eelec")):
                mx[key + "_over_tau"] = max(mx.get(key + "_over_tau", 0.0), r[key] / tau)
                checks.append((name, r[key], tol[K] * tau + tol["floor"], True))
            if not degenerate:
                mx["rediag_over_tau"] = max(mx.get("rediag_over_tau", 0.0), r["rediag"] / tau)
                # first-order perturbation theory: a commutator residual c changes the re-diagonalised density by ~ c / gap, so
                # for gaps below 1 eV the factor of proportionality to the threshold grows like 1 / gap
                checks.append(("rediagonalisation", r["rediag"], tol["K_rediag"] * tau * max(1.0, 1.0 / r["gap"]) + tol["floor"], True))
            for name, val, bound, _ in checks:
                if not (val <= bound):
                    failures.append(core.fail(f"converged-but-not-self-consistent/{name}", f"{tag}: molecule {m} ({names[m]}) is reported converged but its {name} residual is {val:.3e} (bound {bound:.3e}, tau={tau:.1e})"))
    if any(o["op"] == "RECHARGE" for o in record["ops"]):
        stats["probes"]["sessions_with_a_change_of_charge_state"] = 1
    if any(e["op"].get("cap", 1000) < 1000 for e in out):
        stats["probes"]["sessions_with_small_cap"] = 1
    if any(e.get("from", "") and str(e.get("from")).startswith("fault") for e in out):
        stats["probes"]["solves_from_faulted_density"] = sum(1 for e in out if str(e.get("from")).startswith("fault"))
    if len({len(scfsim.mdsim.POOL[scfsim.SPECIES[n][0]][0]) for n in names}) > 1:
        stats["probes"]["padded_batches"] = 1
    if any(scfsim.SPECIES[n][1] < 0 for n in names) and any(e["op"]["cfg"]["sp2"][0] for e in out) and "padded_batches" in stats["probes"]:
        stats["probes"]["sp2_padded_anion"] = 1
    sig = [names, record["method"], [(e["op"]["cfg"]["conv"], e["op"]["cfg"]["sp2"], e["op"]["cfg"]["eps"], e["op"]["cfg"]["uhf"], e["op"]["cfg"].get("backward", 0), e["op"]["cfg"].get("grad"), e["start"], e["op"].get("cap")) for e in out]]
    sample = {"session": record, "solves": [{"notconverged": e.get("notconverged"), "lines": e.get("lines"), "exc": e.get("exc"), "start": e["start"], "from": e.get("from")} for e in out]}
    dig = core.digest([[e.get("notconverged"), [round(v, 9) for v in (e.get("Etot") or [])]] for e in out])
    return core.Result.make(record, failures, stats, sig=sig, nontrivial=len(out) >= 2, sample=sample, digest_=dig)


class C03(core.Check):
    prop = PROP
    level = "exploration"
    module = "dst.c03"
    budget = {"quick": 200, "thorough": 1700}
    runs = {"quick": 320, "thorough": 6000}
    assumptions = [
        "residuals are computed from the returned density with the repository's own Fock builder (operator correctness is C06, not applicable here) and an independent torch.linalg.eigh re-diagonalisation",
        "tau = max(eps, 0.1 x SP2 tolerance clamped to its documented window) / (1 - alpha); bounds K x tau with K frozen at >= 10 x the worst calibrated value; they detect wrong or unconverged answers, not small regressions",
        "liveness budget: 5e6 line events of library code per solve (ordinary solves need 1e4 - 3.5e5)",
        "molecule pool only (21 species incl. cations, anions, doublets, triplets, H2S/HCl/SiH4); PM6 with d orbitals restricted only (the library has no unrestricted PM6); GPU not reached",
        "the Krylov solver [3, {...}] is generated for restricted sp-basis batches without H2 / full-shell atoms (outside its domain) and checked where gap / (2 kB T_el) > 25 (no thermal smearing)",
    ]

    def plan(self, tier, seed):
        return [dict(scfsim.gen_session(core.rng_for(seed, PROP, i)), i=i) for i in range(self.runs[tier])]

    def shrink_candidates(self, rec):
        out = []
        ops = rec["ops"]
        for j in range(len(ops)):
            if len(ops) > 1:
                out.append(dict(rec, ops=ops[:j] + ops[j + 1 :]))
        if len(rec["batch"]) > 1:
            for j in range(len(rec["batch"])):
                out.append(dict(rec, batch=rec["batch"][:j] + rec["batch"][j + 1 :]))
        return out

    def vacuous(self, results):
        stats = {}
        for r in results:
            core.merge_counts(stats, r["stats"])
        raised = stats.get("probes", {}).get("solves_that_raised", 0)
        total = stats.get("solves", 0) or stats.get("solves_seen", 0)
        if total and raised > 0.2 * total:
            return f"{raised} of {total} solves of valid configurations raised an exception"
        return None

    def coverage(self, results, tier):
        sigs, stats = set(), {}
        for r in results:
            core.merge_counts(stats, r["stats"])
            if r["sig"] is not None and r["nontrivial"]:
                sigs.add(json.dumps(r["sig"]))
        return {
            "evaluations": len(results),
            "distinct_nontrivial": len(sigs),
            "rule": "one evaluation = one seeded SCF session (batch of 1-3 pool species incl. ions/open shells/zero padding; 3-8 operations MOVE / SOLVE(solver, SP2, eps, RHF/UHF, cold|carried start, iteration cap) / FAULT(noise, scaling, de-idempotisation, stale, asymmetric) on the carried density); non-trivial = at least two solves; distinct = distinct (batch, method, solve-configuration sequence)",
            "samples": [r["sample"] for r in results if r.get("sample")][:3],
            "solves": stats.get("solves", 0),
            "converged_molecules_checked": stats.get("converged_molecules_checked", 0),
            "probes": stats.get("probes", {}),
            "worst_observed": stats.get("max", {}),
            "tolerances_used": core.tolerances()["C03"],
            "components": {"real": ["Electronic_Structure.forward, scf_loop and all convergers, SP2, diag, fock, fock_u_batch, pack"], "stub": ["iteration cap set through scf_loop.MAX_ITER (knob)"]},
        }


def main(argv=None):
    return core.main(C03(), argv)
