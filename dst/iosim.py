"""I/O seam, simulated clocks and fault firing for the MD engines (lives in the fork()ed child).

All three output paths of seqm.MolecularDynamics are routed through shims installed by namespace
patching (no source hook): HDF5 (h5py file-object driver -> every low-level pwrite/truncate is an
event), XYZ (counting raw file under the real Buffered/Text layers), checkpoint (torch.save to a
counting raw file, os.replace with before/after events, deterministic temp names).

Clocks: (step, io-offset-in-step) and (step, line-offset-in-step).  A fault fires at the first event
whose clock value is >= the requested one, so fault positions mean the same thing in every
incarnation of a run (the MD step counter is absolute).
"""
import builtins
import errno
import io
import os
import sys

import h5py as real_h5py
import torch as real_torch


class InjectedCrash(BaseException):
    """Soft crash: unwinds like KeyboardInterrupt (not swallowed by `except Exception`)."""


class Sim:
    n = 0  # I/O events so far in this incarnation
    step = 0  # MD step being computed (absolute label); 0 = initialisation
    off = 0  # I/O events since the step began
    lines = 0
    loff = 0
    fault = None  # {"kind": hard|soft|ioerr, "clock": io|line|step, "step": s, "off": o, "torn": f?}
    fired = None
    logfd = None
    xyzbuf = None
    counts = {}
    first_replace_n = None
    tmp_counter = 0
    in_flush = None  # (file name, "flush"|"close") while inside an h5py File.flush()/close() call
    flush_pos = 0  # I/O events already performed inside that call

    @classmethod
    def flush_enter(cls, name, what):
        cls.in_flush = (name, what)
        cls.flush_pos = 0
        cls.log(f"M\t{what}.begin\t{name}")

    @classmethod
    def flush_exit(cls):
        cls.log(f"M\tend\t{cls.in_flush}")
        cls.in_flush = None
        cls.flush_pos = 0

    @classmethod
    def reset(cls, logpath, fault=None, xyzbuf=None):
        cls.n = cls.step = cls.off = cls.lines = cls.loff = 0
        cls.fault = fault
        cls.fired = None
        cls.xyzbuf = xyzbuf
        cls.counts = {}
        cls.first_replace_n = None
        cls.tmp_counter = 0
        cls.in_flush = None
        cls.flush_pos = 0
        cls.logfd = os.open(logpath, os.O_WRONLY | os.O_CREAT | os.O_APPEND, 0o644)

    @classmethod
    def log(cls, text):
        if cls.logfd is not None:
            os.write(cls.logfd, (text + "\n").encode())

    @classmethod
    def begin_step(cls, s):
        cls.log(f"L\t{cls.step}\t{cls.off}\t{cls.loff}")
        cls.step = s
        cls.off = 0
        cls.loff = 0
        cls.log(f"S\t{s}")
        f = cls.fault
        if f is not None and cls.fired is None and f["clock"] == "step" and s >= f["step"]:
            cls._fire("step", f"{s}", None)

    @classmethod
    def ev(cls, kind, detail="", partial=None):
        """Called immediately BEFORE the I/O operation is performed.

        `partial` is a callable(frac) that performs a torn (prefix-only) version of the operation.
        """
        cls.n += 1
        cls.off += 1
        cls.counts[kind] = cls.counts.get(kind, 0) + 1
        cls.log(f"E\t{cls.n}\t{cls.step}\t{cls.off}\t{kind}\t{detail}")
        f = cls.fault
        if f is not None and cls.fired is None and f["clock"] == "io" and (cls.step, cls.off) >= (f["step"], f["off"]):
            want = f.get("only")
            if want and not kind.startswith(tuple(want)):
                return
            cls._fire(kind, detail, partial)
        if cls.in_flush is not None:
            cls.flush_pos += 1

    @classmethod
    def _fire(cls, kind, detail, partial):
        f = cls.fault
        cls.fired = {"kind": f["kind"], "clock": f["clock"], "at": kind, "detail": detail, "step": cls.step, "off": cls.off, "n": cls.n}
        if cls.in_flush is not None:
            cls.fired["in_flush"] = list(cls.in_flush)
            cls.fired["flush_pos"] = cls.flush_pos
        cls.log("F\t" + __import__("json").dumps(cls.fired))
        if f["kind"] == "hard":
            torn = f.get("torn")
            if torn and partial is not None:
                partial(float(torn))
                cls.log(f"K\thard-torn\t{kind}\t{detail}\t{cls.step}\t{cls.off}\t{cls.n}\t{torn}")
            else:
                cls.log(f"K\thard\t{kind}\t{detail}\t{cls.step}\t{cls.off}\t{cls.n}")
            os._exit(137)
        if f["kind"] == "soft":
            cls.log(f"K\tsoft\t{kind}\t{detail}\t{cls.step}\t{cls.off}\t{cls.n}")
            raise InjectedCrash(f"soft crash at {kind} {detail} step {cls.step}")
        if f["kind"] == "ioerr":
            cls.log(f"K\tioerr\t{kind}\t{detail}\t{cls.step}\t{cls.off}\t{cls.n}")
            raise OSError(errno.ENOSPC, f"injected ENOSPC at {kind} {detail}")
        raise RuntimeError(f"unknown fault kind {f}")

    # ---- line clock (sys.settrace restricted to the two dynamics modules) -------------------
    @classmethod
    def install_line_clock(cls):
        targets = ("MolecularDynamics.py", "NonadiabaticDynamics.py")

        def local(frame, event, arg):
            if event == "line":
                cls.lines += 1
                cls.loff += 1
                f = cls.fault
                if (
                    f is not None
                    and cls.fired is None
                    and f["clock"] == "line"
                    and (cls.step, cls.loff) >= (f["step"], f["off"])
                ):
                    site = f"{os.path.basename(frame.f_code.co_filename)}:{frame.f_lineno}:{frame.f_code.co_name}"
                    cls.fired = {"kind": "hard", "clock": "line", "at": site, "step": cls.step, "off": cls.loff}
                    cls.log("F\t" + __import__("json").dumps(cls.fired))
                    cls.log(f"K\thard-line\t{site}\t{cls.step}\t{cls.loff}\t{cls.lines}")
                    os._exit(137)
            return local

        def tracer(frame, event, arg):
            if frame.f_code.co_filename.endswith(targets):
                return local
            return None

        sys.settrace(tracer)


# ------------------------------------------------------------------------------------------
# HDF5: real h5py/HDF5 on a Python file object -> every low-level write is visible


class H5Raw(io.RawIOBase):
    def __init__(self, path, mode):
        flags = os.O_RDWR | ((os.O_CREAT | os.O_TRUNC) if mode == "w" else 0)
        self.fd = os.open(path, flags, 0o644)
        self.pos = 0
        self.fname = os.path.basename(path)

    def readable(self):
        return True

    def writable(self):
        return True

    def seekable(self):
        return True

    def seek(self, off, whence=0):
        if whence == 0:
            self.pos = off
        elif whence == 1:
            self.pos += off
        else:
            self.pos = os.fstat(self.fd).st_size + off
        return self.pos

    def tell(self):
        return self.pos

    def readinto(self, b):
        d = os.pread(self.fd, len(b), self.pos)
        b[: len(d)] = d
        self.pos += len(d)
        return len(d)

    def write(self, b):
        data = bytes(b)
        pos = self.pos

        def partial(frac):
            k = max(1, min(len(data) - 1, int(len(data) * frac))) if len(data) > 1 else 0
            if k:
                os.pwrite(self.fd, data[:k], pos)

        Sim.ev("h5.pwrite", f"{self.fname}@{pos}+{len(data)}", partial)
        n = os.pwrite(self.fd, data, pos)
        self.pos += n
        return n

    def truncate(self, size=None):
        size = self.pos if size is None else size
        Sim.ev("h5.truncate", f"{self.fname}:{size}")
        os.ftruncate(self.fd, size)
        return size

    def flush(self):
        pass

    def close(self):
        if getattr(self, "fd", None) is not None:
            os.close(self.fd)
            self.fd = None
        super().close()


class H5File(real_h5py.File):
    """h5py.File whose flush()/close() calls are bracketed in the event log (burst boundaries)."""

    _dst_name = "?"

    def flush(self):
        Sim.flush_enter(self._dst_name, "flush")
        try:
            return super().flush()
        finally:
            Sim.flush_exit()

    def close(self):
        if not self.id.valid:
            return super().close()
        Sim.flush_enter(self._dst_name, "close")
        try:
            return super().close()
        finally:
            Sim.flush_exit()


class H5Shim:
    Group = real_h5py.Group
    Dataset = real_h5py.Dataset

    @staticmethod
    def File(path, mode="r", *a, **kw):
        if mode in ("r",):
            return real_h5py.File(path, mode, *a, **kw)
        Sim.ev("h5.open", f"{os.path.basename(path)}:{mode}")
        f = H5File(H5Raw(path, mode), mode, *a, **kw)
        f._dst_name = os.path.basename(path)
        return f


# ------------------------------------------------------------------------------------------
# XYZ: counting raw file below the real buffered text stack


class XyzRaw(io.FileIO):
    def write(self, b):
        data = bytes(b)
        name = os.path.basename(self.name)

        def partial(frac):
            k = max(1, min(len(data) - 1, int(len(data) * frac))) if len(data) > 1 else 0
            if k:
                io.FileIO.write(self, data[:k])

        Sim.ev("xyz.raw", f"{name}+{len(data)}", partial)
        return super().write(data)


class XyzFile:
    """Object returned for open(path, 'a+', buffering=N): real TextIOWrapper/BufferedRandom over XyzRaw."""

    def __init__(self, path, mode, buffering):
        if Sim.xyzbuf:
            buffering = int(Sim.xyzbuf)
        self._raw = XyzRaw(path, mode)
        self._buf = io.BufferedRandom(self._raw, buffer_size=buffering)
        self._txt = io.TextIOWrapper(self._buf)
        if Sim.xyzbuf:
            # the text layer has its own 8 KiB pending buffer; shrink it too so that spills (and hence
            # torn frames after a kill) occur in short runs
            self._txt._CHUNK_SIZE = max(1, int(Sim.xyzbuf))
        self._name = os.path.basename(path)

    def write(self, s):
        Sim.ev("xyz.write", self._name)
        return self._txt.write(s)

    def flush(self):
        Sim.ev("xyz.flush", self._name)
        return self._txt.flush()

    def close(self):
        Sim.ev("xyz.close", self._name)
        return self._txt.close()

    def __getattr__(self, k):
        return getattr(self._txt, k)


def open_shim(path, mode="r", buffering=-1, *a, **kw):
    if mode == "a+" and str(path).endswith(".xyz"):
        return XyzFile(path, mode, buffering)
    return builtins.open(path, mode, buffering, *a, **kw)


# ------------------------------------------------------------------------------------------
# checkpoint: os / tempfile / torch proxies


class OsShim:
    def __getattr__(self, k):
        return getattr(os, k)

    def replace(self, a, b):
        Sim.ev("os.replace.before", os.path.basename(b))
        os.replace(a, b)
        if Sim.first_replace_n is None:
            Sim.first_replace_n = Sim.n
        Sim.ev("os.replace.after", os.path.basename(b))

    def rename(self, a, b):
        Sim.ev("os.rename", os.path.basename(b))
        os.rename(a, b)

    def remove(self, a):
        Sim.ev("os.remove", "tmp")
        os.remove(a)


class TempfileShim:
    def __getattr__(self, k):
        import tempfile

        return getattr(tempfile, k)

    def mkstemp(self, dir=None, prefix="tmp", suffix="", **kw):
        Sim.ev("ckpt.mkstemp", "")
        while True:
            Sim.tmp_counter += 1
            p = os.path.join(dir or ".", f"{prefix}{Sim.tmp_counter:06d}{suffix}")
            try:
                fd = os.open(p, os.O_RDWR | os.O_CREAT | os.O_EXCL, 0o600)
                return fd, p
            except FileExistsError:
                continue


class CkRaw(io.RawIOBase):
    def __init__(self, path):
        self.f = builtins.open(path, "wb", buffering=0)

    def writable(self):
        return True

    def write(self, b):
        data = bytes(b)

        def partial(frac):
            k = max(1, min(len(data) - 1, int(len(data) * frac))) if len(data) > 1 else 0
            if k:
                self.f.write(data[:k])

        Sim.ev("ckpt.write", f"{len(data)}", partial)
        return self.f.write(data)

    def flush(self):
        pass

    def close(self):
        self.f.close()
        super().close()


class TorchShim:
    """Module-namespace proxy for `torch`: everything passes through except save() (and, when a
    recorder is attached, the random draws)."""

    def __init__(self, io=True):
        self.recorder = None
        self.io = io

    def __getattr__(self, k):
        return getattr(real_torch, k)

    def save(self, obj, path, *a, **kw):
        if not self.io:
            return real_torch.save(obj, path, *a, **kw)
        Sim.ev("ckpt.save.begin", "")
        f = CkRaw(path)
        try:
            real_torch.save(obj, f, *a, **kw)
        finally:
            f.close()
        Sim.ev("ckpt.save.end", "")

    def randn_like(self, x, *a, **kw):
        r = real_torch.randn_like(x, *a, **kw)
        if self.recorder is not None:
            self.recorder("randn_like", r)
        return r

    def randn(self, *a, **kw):
        r = real_torch.randn(*a, **kw)
        if self.recorder is not None:
            self.recorder("randn", r)
        return r

    def normal(self, *a, **kw):
        r = real_torch.normal(*a, **kw)
        if self.recorder is not None:
            self.recorder("normal", r)
        return r

    def rand(self, *a, **kw):
        r = real_torch.rand(*a, **kw)
        if self.recorder is not None:
            r = self.recorder("rand", r)
        return r


def install(io_seam=True, line_clock=False, track_steps=True, rng_seam=False):
    """Patch the MD module namespaces. Must be called in the child, after fork."""
    import seqm.MolecularDynamics as MDm
    import seqm.NonadiabaticDynamics as NDm

    tshim = TorchShim(io=io_seam)
    if rng_seam:
        MDm.torch = tshim
        NDm.torch = tshim
    if io_seam:
        MDm.h5py = H5Shim
        MDm.open = open_shim
        MDm.os = OsShim()
        MDm.tempfile = TempfileShim()
        MDm.torch = tshim
    if track_steps:
        for cls in (MDm.Molecular_Dynamics_Basic, MDm.XL_BOMD, NDm.NonadiabaticDynamicsBase):
            orig = cls.__dict__["_do_integrator_step"]

            def make(orig):
                def wrapped(self, i, *a, **kw):
                    Sim.begin_step(i + 1)
                    return orig(self, i, *a, **kw)

                return wrapped

            setattr(cls, "_do_integrator_step", make(orig))
    if line_clock:
        Sim.install_line_clock()
    return tshim


def read_log(path):
    """Parse an incarnation's event log: list of events, the kill record (if any)."""
    events, kill, steps = [], None, []
    if not os.path.exists(path):
        return events, kill
    with builtins.open(path) as fh:
        for ln in fh:
            p = ln.rstrip("\n").split("\t")
            if p[0] == "E":
                events.append({"n": int(p[1]), "step": int(p[2]), "off": int(p[3]), "kind": p[4], "detail": p[5] if len(p) > 5 else ""})
            elif p[0] == "F":
                kill = __import__("json").loads(p[1])
    return events, kill


def per_step_counts(path):
    """-> {step: (io events, line events)} from the L records of a completed incarnation's log."""
    out = {}
    with builtins.open(path) as fh:
        for ln in fh:
            p = ln.rstrip("\n").split("\t")
            if p[0] == "L":
                out[int(p[1])] = (int(p[2]), int(p[3]))
    return out
