"""C04 - the SCF answer does not depend on which solver path produced it.

Same SCF sessions as C03, restricted to near-equilibrium closed-shell molecules with a reference gap
above 2 eV.  The history axis is what the simulator adds: the density handed to a solve comes from
the previous geometry, from another solver, from an RHF<->UHF-singlet switch or from a faulted
density, in any order.  After every converged solve the result is compared with a reference solve of
the same geometry (cold start, diagonalisation, adaptive->Pulay, eps 1e-11); tightening chains
(eps, eps/100, eps/1e4 from the same start) must move monotonically toward it.
"""
import json
import os
import shutil

import numpy as np

from . import core, scfsim

PROP = "C04"


def execute(record):
    root = core.make_scratch(f"c04-{record.get('i', 0)}-{core.digest(record)}")
    try:
        return _execute(record, root)
    finally:
        shutil.rmtree(root, ignore_errors=True)


def _execute(record, root):
    tol = core.tolerances()["C04"]
    failures, stats = [], {"probes": {}, "solves_compared": 0, "max": {}}
    mx = stats["max"]
    rec = dict(record, want_ref=True)
    out, err = scfsim.run_session(rec, root)
    if out is None:
        failures.append(core.fail("session-died", f"the process running the SCF session died: {str(err)[:400]}"))
        return core.Result.make(record, failures, stats, sig=None, nontrivial=False)
    names = record["batch"]
    chain = []
    saddle_seen = set()
    for k, e in enumerate(out):
        c = e["op"]["cfg"]
        tag = f"solve {k} batch={names} {record['method']} conv={c['conv']} sp2={c['sp2']} eps={c['eps']} uhf={c['uhf']} backward={c.get('backward', 0)} forces={c.get('grad', 'autodiff')} excited_states_tol={c.get('exc')} start={e['start']}({e.get('from')})"
        stats["solves_seen"] = stats.get("solves_seen", 0) + 1
        if e.get("exc"):
            stats["probes"]["solves_that_raised"] = stats["probes"].get("solves_that_raised", 0) + 1
            # every generated configuration is a documented, selectable way of solving a molecule inside the statement's
            # domain: a path that raises does not "yield the same energy"
            if e["exc"].startswith("NotImplementedError"):
                # an explicit "not implemented" refusal before any result is produced is a documented domain boundary
                stats["probes"]["refused_not_implemented"] = stats["probes"].get("refused_not_implemented", 0) + 1
            elif e.get("start_asymmetric") or e.get("from") == "fault:asym":
                # an asymmetric matrix is not a density any caller can hold: under this injected fault a solve may fail
                # loudly (the Krylov solver does, with NaN -> ValueError); it may never return wrong data, which the
                # comparisons below keep checking for every solve that does return
                stats["probes"]["loud_failure_from_asymmetric_start"] = stats["probes"].get("loud_failure_from_asymmetric_start", 0) + 1
            else:
                failures.append(core.fail("path-fails", f"{tag}: this solver path raised {e['exc'][:300]} for a batch that the reference path solves"))
        if e.get("exc") or e.get("nonterminating") or not e.get("finite") or "ref" not in e or "exc" in e["ref"]:
            continue
        tau = scfsim.tau_of(c, sp2_weight=3.0)  # the energy error of a purified density is ~30 x the SP2 trace tolerance
        ref = e["ref"]
        errsE = []
        for m in range(len(names)):
            own_gap = e["res"][m]["gap"] if e.get("res") else ref["gap"][m]
            # domain: a single stable closed-shell solution.  A small gap of BOTH the reference and this solve marks a nearly
            # degenerate molecule (outside the domain); a small gap of only one of them means that one path has landed on
            # another stationary point - exactly what the property excludes - and is compared
            if e["notconverged"][m] or ref["notconverged"][m] or (ref["gap"][m] < 2.0 and own_gap < 2.0) or not scfsim.thermally_cold(c, max(ref["gap"][m], own_gap)):
                errsE.append(None)
                continue
            if c["uhf"] and e.get("spin") and e["spin"][m] > 1e-2 and e["Etot"][m] < ref["Etot"][m] - (tol["K_E"] * tau + tol["floor"]):
                # the unrestricted solve found a spin-polarised state BELOW the closed-shell one: the closed-shell
                # solution of this geometry is not stable (triplet instability), i.e. the molecule is outside the
                # statement's domain ("a single stable closed-shell solution").  Its self-consistency is C03's business.
                stats["probes"]["uhf_lower_broken_symmetry_state"] = stats["probes"].get("uhf_lower_broken_symmetry_state", 0) + 1
                errsE.append(None)
                continue
            # committed known finding (DESIGN section 6 item 46): in a batch of several molecules the Pulay solver - which is
            # also the reference path - can land a molecule on an UNSTABLE stationary point (gap < 2 eV, more than 1 eV above
            # the solution every other path finds), depending on its batch mates
            cls = {"site": "other"}
            if len(names) > 1 and not any(b in ("h-", "o2-") for b in names):
                # (batches with a full-shell atom are excluded from the match: that trigger was repaired by fix 238a43a and must
                # stay repaired)
                ref_on_saddle = ref["gap"][m] < 2.0 and own_gap >= 2.0 and e["Etot"][m] < ref["Etot"][m] - 1.0
                own_on_saddle = c["conv"][0] == 2 and own_gap < 2.0 and ref["gap"][m] >= 2.0 and e["Etot"][m] > ref["Etot"][m] + 1.0
                if ref_on_saddle or own_on_saddle:
                    cls = {"site": "pulay-batch-unstable-stationary-point"}
                    key = (e["geom"], m)
                    if key not in saddle_seen:
                        saddle_seen.add(key)
                        which = "the reference solve (Pulay, cold start)" if ref_on_saddle else "this Pulay solve"
                        failures.append(core.fail("pulay-lands-on-unstable-stationary-point", f"{tag}: molecule {m} ({names[m]}): {which} converged to a stationary point with gap {min(own_gap, ref['gap'][m]):.3f} eV, {abs(e['Etot'][m] - ref['Etot'][m]):.2f} eV above the solution of the other path (gap {max(own_gap, ref['gap'][m]):.2f} eV); both report converged", classify=cls))
                    errsE.append(None)
                    continue
            stats["solves_compared"] += 1
            dE = abs(e["Etot"][m] - ref["Etot"][m])
            dF = float(np.abs(np.array(e["force"][m]) - np.array(ref["force"][m])).max()) if e.get("force") is not None else 0.0
            dq = float(np.abs(np.array(e["q"][m]) - np.array(ref["q"][m])).max())
            de = float(np.abs(np.array(e["e_mo"][m]) - np.array(ref["e_mo"][m])).max())
            errsE.append(dE)
            for name, val, K in (("energy", dE, "K_E"), ("forces", dF, "K_F"), ("charges", dq, "K_q"), ("orbital-energies", de, "K_e")):
                # committed known finding (DESIGN section 6 item 48): the ANALYTICAL force evaluator is wrong for H-Cl under PM3
                kf = name == "forces" and c.get("grad") == "analytical" and record["method"] == "PM3" and names[m] == "hcl"
                if not kf:
                    mx[name + "_over_tau"] = max(mx.get(name + "_over_tau", 0.0), val / tau)
                if val > tol[K] * tau + tol["floor"]:
                    failures.append(core.fail(f"path-dependent/{name}", f"{tag}: molecule {m} ({names[m]}): {name} differ from the reference solve (cold, diagonalisation, Pulay, eps 1e-11) of the same geometry by {val:.3e} (bound {tol[K] * tau:.3e}, tau={tau:.1e}); both report converged", classify={"site": "analytical-gradient-pm3-hcl" if kf else "other"}))
        if c.get("grad"):
            stats["probes"][f"{c['grad']}_force_solves"] = stats["probes"].get(f"{c['grad']}_force_solves", 0) + 1
        if c["conv"][0] == 3:
            stats["probes"]["krylov_solves"] = stats["probes"].get("krylov_solves", 0) + 1
        if c.get("backward"):
            stats["probes"][f"backward_{c['backward']}_solves"] = stats["probes"].get(f"backward_{c['backward']}_solves", 0) + 1
        if record["method"] == "PM6":
            stats["probes"]["pm6_d_solves"] = stats["probes"].get("pm6_d_solves", 0) + 1
        if c["uhf"]:
            stats["probes"]["uhf_singlet_solves"] = stats["probes"].get("uhf_singlet_solves", 0) + 1
        if c["sp2"][0]:
            stats["probes"]["sp2_solves"] = stats["probes"].get("sp2_solves", 0) + 1
        if str(e.get("from", "")).startswith("fault"):
            stats["probes"]["from_faulted_density"] = stats["probes"].get("from_faulted_density", 0) + 1
        if "chain" in e["op"]:
            chain.append((e["op"]["chain"], tau, errsE, tag))
    # monotone tightening
    if len(chain) == 3:
        stats["probes"]["tightening_chains"] = 1
        for (j0, t0, e0, _), (j1, t1, e1, tag1) in zip(chain, chain[1:]):
            for m in range(len(names)):
                if e0[m] is None or e1[m] is None:
                    continue
                allowed = max(e0[m], tol["K_E"] * t1 + tol["floor"])
                if e1[m] > allowed:
                    failures.append(core.fail("not-monotone", f"{tag1}: molecule {m}: tightening the threshold (tau {t0:.1e} -> {t1:.1e}) moved the energy AWAY from the limit ({e0[m]:.3e} -> {e1[m]:.3e} eV)"))
    sig = [names, record["method"], [(e["op"]["cfg"]["conv"], e["op"]["cfg"]["sp2"], e["op"]["cfg"]["eps"], e["op"]["cfg"]["uhf"], e["op"]["cfg"].get("backward", 0), e["op"]["cfg"].get("grad"), e["start"], e.get("from")) for e in out]]
    sample = {"session": record, "solves": [{"notconverged": e.get("notconverged"), "start": e["start"], "from": e.get("from"), "Etot": e.get("Etot")} for e in out]}
    dig = core.digest([[e.get("notconverged"), [round(v, 9) for v in (e.get("Etot") or [])]] for e in out])
    return core.Result.make(record, failures, stats, sig=sig, nontrivial=len(out) >= 2, sample=sample, digest_=dig)


class C04(core.Check):
    prop = PROP
    level = "exploration"
    module = "dst.c04"
    budget = {"quick": 200, "thorough": 1700}
    runs = {"quick": 260, "thorough": 5000}
    assumptions = [
        "closed-shell neutral pool molecules near equilibrium (MD-like displacements <= 0.05 A per atom and step), reference gap > 2 eV",
        "bounds K x tau are an order of magnitude above what the code achieves: the check catches a path that converges to a different or badly under-converged density, not a 2x loss of accuracy",
        "reference = cold start, diagonalisation, adaptive->Pulay, eps 1e-11 of the same code base (cross-solver agreement, not absolute correctness)",
    ]

    def plan(self, tier, seed):
        recs = [dict(scfsim.gen_session(core.rng_for(seed, PROP, i), closed_only=True), i=i) for i in range(self.runs[tier])]
        # record 1: the pinned history of DESIGN section 6 item 39 (Pulay, cold start, H2S next to a full-shell atom)
        pulay = {"eps": 1e-6, "conv": [2], "sp2": [False], "uhf": False}
        recs[1] = {"batch": ["h-", "h2s", "h2co"], "method": "AM1", "rotate": 11252395, "seed": 1056303067749, "i": 1, "ops": [{"op": "SOLVE", "cfg": dict(pulay, eps=1e-4), "start": "cold", "cap": 1000}, {"op": "SOLVE", "cfg": dict(pulay, conv=[1]), "start": "cold", "cap": 1000}, {"op": "SOLVE", "cfg": dict(pulay, conv=[0, 0.3]), "start": "cold", "cap": 1000}]}
        # record 2: the pinned history of item 41 (Krylov solver with method PM6: refused, formerly a wrong density)
        ksa = {"eps": 1e-8, "conv": [3, {"T_el": 300.0, "max_rank": 3, "err_threshold": 0.0}], "sp2": [False], "uhf": False}
        recs[2] = {"batch": ["h2co"], "method": "PM6", "rotate": 5, "seed": 77, "i": 2, "ops": [{"op": "SOLVE", "cfg": dict(pulay, eps=1e-8), "start": "cold", "cap": 1000}, {"op": "SOLVE", "cfg": ksa, "start": "cold", "cap": 1000}, {"op": "SOLVE", "cfg": dict(pulay, eps=1e-8, conv=[1]), "start": "carried", "cap": 1000}]}
        # record 3: the pinned session of known finding C04-pulay-batch-unstable-stationary-point (item 46): in the batch
        # [H2S, C2H4] at this orientation the cold-start Pulay solve (the reference path) lands H2S on the unstable stationary point
        recs[3] = {"batch": ["h2s", "c2h4"], "method": "AM1", "rotate": 1019240000, "seed": 123306448824, "i": 3, "ops": [{"op": "SOLVE", "cfg": {"eps": 1e-6, "conv": [1], "sp2": [False], "uhf": False}, "start": "cold", "cap": 1000}, {"op": "SOLVE", "cfg": {"eps": 1e-6, "conv": [2], "sp2": [False], "uhf": False}, "start": "cold", "cap": 1000}]}
        # record 4: the pinned session of known finding C04-analytical-gradient-pm3-hcl (item 48)
        recs[4] = {"batch": ["hcl"], "method": "PM3", "rotate": 7, "seed": 11, "i": 4, "ops": [{"op": "SOLVE", "cfg": {"eps": 1e-8, "conv": [1], "sp2": [False], "uhf": False, "grad": "analytical"}, "start": "cold", "cap": 1000}, {"op": "SOLVE", "cfg": {"eps": 1e-8, "conv": [1], "sp2": [False], "uhf": False, "grad": "semi-numerical"}, "start": "cold", "cap": 1000}]}
        return recs

    def shrink_candidates(self, rec):
        out = []
        ops = rec["ops"]
        for j in range(len(ops)):
            if len(ops) > 1 and "chain" not in ops[j]:
                out.append(dict(rec, ops=ops[:j] + ops[j + 1 :]))
        if len(rec["batch"]) > 1:
            for j in range(len(rec["batch"])):
                out.append(dict(rec, batch=rec["batch"][:j] + rec["batch"][j + 1 :]))
        return out

    def vacuous(self, results):
        stats = {}
        for r in results:
            core.merge_counts(stats, r["stats"])
        raised = stats.get("probes", {}).get("solves_that_raised", 0)
        total = stats.get("solves", 0) or stats.get("solves_seen", 0)
        if total and raised > 0.2 * total:
            return f"{raised} of {total} solves of valid configurations raised an exception"
        return None

    def coverage(self, results, tier):
        sigs, stats = set(), {}
        for r in results:
            core.merge_counts(stats, r["stats"])
            if r["sig"] is not None and r["nontrivial"]:
                sigs.add(json.dumps(r["sig"]))
        return {
            "evaluations": len(results),
            "distinct_nontrivial": len(sigs),
            "rule": "one evaluation = one seeded SCF session over closed-shell molecules (MOVE / SOLVE over {fixed, adaptive, Pulay} x {diag, SP2} x {RHF, UHF singlet} x eps x {cold, carried, faulted start} / FAULT, optional tightening chain), every converged solve compared with a reference solve of the same geometry; non-trivial = at least two solves; distinct = distinct (batch, method, configuration/start sequence)",
            "samples": [r["sample"] for r in results if r.get("sample")][:3],
            "solves_compared_with_reference": stats.get("solves_compared", 0),
            "probes": stats.get("probes", {}),
            "worst_observed": stats.get("max", {}),
            "tolerances_used": core.tolerances()["C04"],
            "components": {"real": ["Electronic_Structure.forward, scf_forward0/1/2, SP2, diag, fock, fock_u_batch, force evaluation"], "stub": []},
        }


def main(argv=None):
    return core.main(C04(), argv)
