"""C20 - steepest-descent geometry optimisation descends and stops truthfully.

The optimiser is the smallest stateful engine (coordinates and density carried between
evaluations, batch-global stop test).  The real Geometry_Optimization_SD.run/onestep is executed
with a forward hook on its driver that records every evaluation (geometry, energy, forces); the
claims are trace properties.  Stub driver (known curvature bound makes "sufficiently small step"
precise) or real SEQM; a carried-density fault between evaluations is one of the knobs.
"""
import json
import math
import os
import re
import shutil

import numpy as np

from . import core, mdsim

PROP = "C20"
ACC = 0.00964853322


def _child_opt(cfg, workdir):
    import torch

    import seqm.MolecularDynamics as MDm
    from seqm.Molecule import Molecule
    from seqm.seqm_functions.constants import Constants

    from . import stub

    torch.set_num_threads(1)
    torch.set_default_dtype(torch.float64)
    if cfg["driver"] == "stub":
        MDm.esdriver = stub.StubES
    sp_np, xyz_np = mdsim.build_batch(cfg)
    params = mdsim.seqm_parameters(dict(cfg, engine="basic"))
    mol = Molecule(Constants(), params, torch.as_tensor(xyz_np), torch.as_tensor(sp_np, dtype=torch.int64))
    opt = MDm.Geometry_Optimization_SD(params, alpha=cfg["alpha"], force_tol=cfg["force_tol"], max_evl=cfg["max_evl"])
    trace = []
    g = torch.Generator().manual_seed(cfg.get("dm_fault_seed", 0))

    def hook(module, args, output):
        m = args[0]
        trace.append({"x": m.coordinates.detach().clone().tolist(), "E": m.Etot.detach().clone().tolist(), "F": m.force.detach().clone().tolist()})
        if cfg.get("dm_fault") and torch.is_tensor(m.dm):
            # fault on the carried density between two evaluations: symmetric noise of relative size sigma
            n = torch.randn(m.dm.shape, generator=g)
            with torch.no_grad():
                m.dm = m.dm + cfg["dm_fault"] * (n + n.transpose(-1, -2)) * m.dm.abs().max()

    pre = cfg.get("pre_run")
    if pre:
        # the same optimiser object first optimises another molecule/batch (its evaluations are not traced)
        pcfg = dict(cfg, batch=pre["batch"], only=None)
        psp, pxyz = mdsim.build_batch(pcfg)
        pmol = Molecule(Constants(), params, torch.as_tensor(pxyz), torch.as_tensor(psp, dtype=torch.int64))
        import contextlib
        import io

        with contextlib.redirect_stdout(io.StringIO()):
            opt.run(pmol, log=False)
    opt.esdriver.register_forward_hook(hook)
    ret = opt.run(mol, log=bool(cfg.get("log", True)))
    return {
        "trace": trace,
        "ret": [float(ret[0]), float(ret[1])],
        "final_x": mol.coordinates.detach().tolist(),
        "final_E": mol.Etot.detach().tolist(),
        "final_F": mol.force.detach().tolist(),
        "x_start": xyz_np.tolist(),
    }


def _collinear_x(st):
    """End-atom distance x of the collinear stationary point A..B..C (r_AB = r_BC = x, r_AC = 2x) of the stub's all-pairs
    potential: root of e'(x) + e'(2x) by bisection (harm: r0/sqrt(3))."""

    def de(r):
        if st["pot"] == "harm":
            return st["k"] * r * (r * r - st["r0"] ** 2) / (2.0 * st["r0"] ** 2)
        ex = math.exp(-st["a"] * (r - st["r0"]))
        return 2.0 * st["D"] * st["a"] * (1.0 - ex) * ex

    lo, hi = 0.5 * st["r0"], st["r0"]
    for _ in range(200):
        mid = 0.5 * (lo + hi)
        if de(mid) + de(2.0 * mid) > 0:
            hi = mid
        else:
            lo = mid
    return float(f"{0.5 * (lo + hi):.12g}")


def gen(rng, tier):
    real = rng.random() < (0.08 if tier == "quick" else 0.12)
    cfg = {"driver": "real" if real else "stub"}
    if real:
        cfg["batch"] = rng.choice([["h2"], ["h2o"], ["nh3"], ["h2o", "h2"], ["nh3", "h2o"]])
        cfg["rotate"] = rng.randrange(1 << 30)
        cfg["distort"] = rng.choice([0.03, 0.08])
        cfg["alpha"] = rng.choice([0.002, 0.005])
        cfg["scf_eps"] = 1e-9
        cfg["scf_converger"] = rng.choice([[1], [0, 0.2], [2]])
        cfg["method"] = rng.choice(["AM1", "PM3", "MNDO"])
        cfg["max_evl"] = rng.choice([3, 6, 12])
        cfg["force_tol"] = rng.choice([1e-4, 0.3, 1.0, 2.0])
        if rng.random() < 0.4:
            cfg["dm_fault"] = rng.choice([1e-6, 1e-4])
            cfg["dm_fault_seed"] = rng.randrange(1 << 20)
    else:
        cfg["batch"] = rng.choice([["h2o"], ["h2o", "h2"], ["ch4", "hf"], ["nh3"], ["h2co", "h2o", "hf"], ["c2h4"]])
        pot = rng.choice(["harm", "morse"])
        st = {"pot": pot, "k": rng.choice([2.0, 4.0, 8.0]), "r0": rng.choice([1.4, 1.8]), "D": 1.5, "a": rng.choice([1.0, 1.4]), "gamma": 0.3}
        cfg["stub"] = st
        cfg["distort"] = rng.choice([0.02, 0.1, 0.3])
        nmax = max(len(mdsim.POOL[m][0]) for m in cfg["batch"])
        keff = st["k"] * 4.0 if pot == "harm" else 2.0 * st["D"] * st["a"] ** 2 * 3.0
        L = 2.0 * (nmax - 1) * keff  # crude curvature bound (eV/A^2): "sufficiently small" means alpha <= 1/L
        amax = min(2e-2, 1.0 / L)
        cfg["alpha"] = float(f"{math.exp(rng.uniform(math.log(1e-4), math.log(amax))):.3g}")
        cfg["max_evl"] = rng.choice([1, 2, 5, 20, 60])
        cfg["force_tol"] = rng.choice([1e-6, 0.05, 0.5, 2.0, 5.0])
        if rng.random() < 0.3:
            cfg["extra_pad"] = 1
            cfg["pad_coords"] = True
        if rng.random() < 0.2:
            # long runs down to round-off: a fast (diatomic) and a slow member, largest admissible step factor, tight
            # tolerance - the energy differences between evaluations reach 1e-15 eV while the run is still going
            cfg["batch"] = rng.choice([["h2o", "h2"], ["ch4", "hf"], ["h2co", "h2o", "hf"], ["nh3", "h2"]])
            nmax = max(len(mdsim.POOL[m][0]) for m in cfg["batch"])
            cfg["alpha"] = float(f"{min(2e-2, 1.0 / (2.0 * (nmax - 1) * keff)):.3g}")
            cfg["distort"] = 0.02
            cfg["max_evl"] = rng.choice([200, 500, 1000])
            cfg["force_tol"] = rng.choice([1e-10, 1e-9, 1e-7])
            cfg["long_run"] = True
        if rng.random() < 0.12:
            # start next to a saddle point: a triatomic member sits on the collinear stationary point of the all-pairs
            # potential, displaced sideways by eps.  Its largest force component starts BELOW the tolerance, rises
            # above it while the molecule leaves the saddle and drops below it for good only much later; meanwhile a
            # batch mate relaxes from a distorted start.  The run must go on until the batch maximum is below the
            # tolerance at one and the same evaluation.
            mate = rng.choice(["ch4", "nh3", "h2co", "c2h4"])
            cfg["batch"] = rng.choice([["h2o", mate], [mate, "h2o"]])
            nmax = max(len(mdsim.POOL[m][0]) for m in cfg["batch"])
            keff = st["k"] * 4.0 if pot == "harm" else 2.0 * st["D"] * st["a"] ** 2 * 3.0
            cfg["alpha"] = float(f"{min(2e-2, 1.0 / (2.0 * (nmax - 1) * keff)):.3g}")
            cfg["saddle"] = {"member": cfg["batch"].index("h2o"), "eps": rng.choice([1e-4, 1e-3, 1e-2]), "x": _collinear_x(st)}
            cfg["distort"] = rng.choice([0.1, 0.3])
            cfg["max_evl"] = 4000
            cfg["force_tol"] = rng.choice([0.02, 0.05, 0.1])
            cfg.pop("extra_pad", None)
            cfg.pop("pad_coords", None)
            cfg.pop("long_run", None)
    cfg["geom_seed"] = rng.randrange(1 << 20)
    cfg["log"] = rng.random() < 0.8
    if not real and rng.random() < 0.3:
        # reused optimiser object: same or other shape, other elements
        cfg["pre_run"] = {"batch": rng.choice([mdsim.same_shape_batch(cfg["batch"], rng), rng.choice([["h2o"], ["ch4", "hf"], ["nh3"]])])}
    return cfg


def execute(record):
    root = core.make_scratch(f"c20-{record.get('i', 0)}-{core.digest(record)}")
    try:
        return _execute(record, root)
    finally:
        shutil.rmtree(root, ignore_errors=True)


def _run(cfg, root, name):
    d = os.path.join(root, name)
    os.makedirs(d)
    st, payload = core.run_in_child(_child_opt, (cfg, d), timeout=1200, stdout_path=os.path.join(d, "stdout.txt"))
    out = open(os.path.join(d, "stdout.txt"), errors="replace").read()
    if st != 0 or not payload or "ok" not in payload:
        return None, payload, out
    return payload["ok"], None, out


def _execute(record, root):
    tol = core.tolerances()["C20"]
    cfg = record["cfg"]
    failures, stats = [], {"probes": {}, "evaluations_traced": 0, "max": {}}
    r, err, out = _run(cfg, root, "A")
    if r is None:
        failures.append(core.fail("run-failed", f"optimiser raised: {str(err)[:300]}"))
        return core.Result.make(record, failures, stats, sig=None, nontrivial=False)
    tr = r["trace"]
    n = len(tr)
    stats["evaluations_traced"] = n
    sp, _ = mdsim.build_batch(cfg)
    nmol = sp.shape[0]
    real = sp > 0
    E = np.array([t["E"] for t in tr])  # (n, nmol)
    F = np.array([t["F"] for t in tr])  # (n, nmol, natom, 3)
    X = np.array([t["x"] for t in tr])
    maxF = np.abs(F).reshape(n, -1).max(1)
    ftol, cap, alpha = cfg["force_tol"], cfg["max_evl"], cfg["alpha"]
    # ---- descent ----------------------------------------------------------------------------------
    slack = tol["descent_slack_real"] if cfg["driver"] == "real" else tol["descent_slack"]
    for m in range(nmol):
        inc = np.diff(E[:, m])
        if len(inc) and inc.max() > slack * max(1.0, np.abs(E[:, m]).max()):
            k = int(np.argmax(inc))
            failures.append(core.fail("energy-rises", f"mol {m}: energy rises by {inc.max():.3e} eV at evaluation {k + 2} (alpha={alpha}, which is <= 1/L for this potential)"))
    # ---- the update rule: x_{k+1} = x_k + alpha F_k, padding atoms never move -----------------------
    for k in range(n - 1):
        pred = X[k] + alpha * F[k]
        d = np.abs(X[k + 1] - pred)[real].max()
        if d > 1e-12:
            failures.append(core.fail("update-rule", f"evaluation {k + 2} is not at x + alpha*F of evaluation {k + 1} (deviation {d:.2e} A)"))
            break
    pad = ~real
    if pad.any():
        stats["probes"]["padded_batches"] = 1
        x0 = np.array(r["x_start"])
        mv = max(np.abs(np.array(r["final_x"]) - x0)[pad].max(), max(np.abs(X[k] - x0)[pad].max() for k in range(n)))
        if mv > 0:
            failures.append(core.fail("padding-moves", f"padding atoms moved by {mv:.3e} A during the optimisation"))
        if np.abs(F[:, pad]).max() > 0:
            failures.append(core.fail("padding-force", "padding atoms carry a force"))
    # ---- truthful stopping ------------------------------------------------------------------------
    below = np.nonzero(maxF <= ftol)[0]
    first = int(below[0]) + 1 if len(below) else None
    expect_n = min(first, cap) if first is not None else cap
    converged = first is not None and first <= cap
    if n != expect_n:
        failures.append(core.fail("wrong-stopping-point", f"{n} evaluations were made; the largest force component first drops to the tolerance {ftol} at evaluation {first}, cap {cap}: expected {expect_n}; max|F| per evaluation {np.round(maxF[:8], 4).tolist()}"))
    said_not = re.search(r"not converged within (\d+) step", out) is not None
    said_conv = re.search(r"converged with (\d+) step", out.replace("not converged", "")) is not None
    if n == expect_n:
        if converged and said_not:
            failures.append(core.fail("untruthful-verdict", f"converged at evaluation {n} (max|F|={maxF[-1]:.3e} <= {ftol}) but reported 'not converged'"))
        if not converged and not said_not:
            failures.append(core.fail("untruthful-verdict", f"cap {cap} reached with max|F|={maxF[-1]:.3e} > {ftol} but 'not converged' was not reported"))
        if not converged and said_conv:
            failures.append(core.fail("untruthful-verdict", "cap reached without convergence but 'converged' was reported"))
        if converged and cfg.get("log") and not said_conv:
            failures.append(core.fail("untruthful-verdict", "converged but no 'converged with N step' line was printed"))
    if cfg.get("saddle"):
        stats["probes"]["saddle_start_runs"] = 1
        ms = int(cfg["saddle"]["member"])
        fm = np.abs(F[:, ms]).reshape(n, -1).max(1)
        up = np.nonzero(fm > ftol)[0]
        if fm[0] <= ftol and len(up) and n > up[0]:
            stats["probes"]["member_below_tolerance_then_above"] = 1
            others = np.abs(np.delete(F, ms, axis=1)).reshape(n, -1).max(1)
            if (others[up[0] :] <= ftol).any() and (fm[np.nonzero(others <= ftol)[0][0] :] > ftol).any():
                stats["probes"]["mates_converged_while_member_back_above_tolerance"] = 1
    if converged and n == cap:
        stats["probes"]["converged_on_last_allowed_evaluation"] = 1
    if not converged:
        stats["probes"]["cap_hit"] = 1
    if cfg.get("pre_run"):
        stats["probes"]["reused_optimiser_runs"] = 1
    # ---- returned values are those of the last evaluation -------------------------------------------
    fe, de = r["ret"]
    if abs(fe - maxF[-1]) > 1e-12 * max(1.0, maxF[-1]):
        failures.append(core.fail("returned-force", f"returned max force {fe!r} is not that of the last evaluated geometry ({maxF[-1]!r})"))
    prevE = E[-2] if n >= 2 else np.zeros(nmol)
    de_exp = float((E[-1] - prevE).sum() / nmol)
    if abs(de - de_exp) > 1e-9 * max(1.0, abs(de_exp)):
        failures.append(core.fail("returned-energy-change", f"returned dE {de!r} is not the energy change of the last evaluation ({de_exp!r}); {n} evaluations, cap {cap}"))
    if np.abs(np.array(r["final_E"]) - E[-1]).max() > 0 or np.abs(np.array(r["final_F"]) - F[-1]).max() > 0:
        failures.append(core.fail("stale-molecule-attributes", "molecule.Etot / molecule.force after run() are not those of the last evaluated geometry"))
    # ---- independence of batch mates --------------------------------------------------------------
    if nmol > 1 and not cfg.get("dm_fault"):
        # (with a carried-density fault the batch and the solo run draw different noise tensors, so they differ at
        # the fault's own level; that case has its own oracle below)
        m = record.get("solo", 0) % nmol
        # same start geometry: molecule m exactly as distorted/rotated in the batch, but alone and unpadded
        rs, err2, _ = _run({k: v for k, v in dict(cfg, only=m).items() if k != "pre_run"}, root, "solo")
        if rs is None:
            failures.append(core.fail("run-failed", f"solo run raised {str(err2)[:200]}"))
        else:
            Xs = np.array([t["x"] for t in rs["trace"]])
            Es = np.array([t["E"] for t in rs["trace"]])
            k = min(len(Xs), n)
            nat = int(real[m].sum())
            dx = np.abs(Xs[:k, 0, :nat] - X[:k, m, :nat]).max()
            dE = np.abs(Es[:k, 0] - E[:k, m]).max()
            stats["max"]["mate_dependence_dx_" + cfg["driver"]] = float(dx)
            bound = tol["mate_dx_real"] if cfg["driver"] == "real" else tol["mate_dx"]
            if dx > bound:
                failures.append(core.fail("depends-on-batch-mates", f"mol {m}: path in the batch differs from the path alone by {dx:.3e} A over the common {k} evaluations"))
            stats["probes"]["batch_mate_comparisons"] = 1
    # ---- a faulted carried density must not change the path beyond the SCF threshold ----------------
    if cfg.get("dm_fault"):
        clean = dict(cfg)
        clean.pop("dm_fault")
        rc, err3, _ = _run(clean, root, "clean")
        if rc is not None:
            Xc = np.array([t["x"] for t in rc["trace"]])
            k = min(len(Xc), n)
            dx = np.abs(Xc[:k] - X[:k])[:, real].max() if k else 0.0
            stats["max"]["dm_fault_path_dev"] = float(dx)
            stats["probes"]["density_fault_runs"] = 1
            if dx > tol["dm_fault_dx"]:
                failures.append(core.fail("path-depends-on-carried-density", f"perturbing the carried density by {cfg['dm_fault']} (relative) between evaluations changes the path by {dx:.3e} A (SCF threshold {cfg['scf_eps']})"))
    sig = [cfg["driver"], cfg["batch"], cfg["alpha"], cfg["force_tol"], cfg["max_evl"], cfg.get("stub", {}).get("pot"), cfg.get("method"), bool(cfg.get("dm_fault")), cfg.get("extra_pad", 0), converged]
    sample = {"cfg": cfg, "evaluations": n, "converged": converged, "max_force_per_evaluation": np.round(maxF[:10], 5).tolist(), "returned": r["ret"]}
    return core.Result.make(record, failures, stats, sig=sig, nontrivial=n >= 1, sample=sample, digest_=core.digest([r["ret"], r["final_x"]]))


class C20(core.Check):
    prop = PROP
    level = "exploration"
    module = "dst.c20"
    budget = {"quick": 170, "thorough": 1700}
    runs = {"quick": 500, "thorough": 8000}
    assumptions = [
        "'sufficiently small step factor' is made precise as alpha <= 1/L with L a crude upper bound of the stub potential's curvature; real-SEQM runs use alpha <= 0.005",
        "real-driver descent is checked with a slack of 1e-9 relative (SCF threshold noise)",
    ]

    def plan(self, tier, seed):
        return [{"i": i, "cfg": gen(core.rng_for(seed, PROP, i), tier), "solo": core.rng_for(seed, PROP, i, "solo").randrange(8)} for i in range(self.runs[tier])]

    def shrink_candidates(self, rec):
        cfg = rec["cfg"]
        out = []
        cp = lambda: json.loads(json.dumps(cfg))
        if len(cfg["batch"]) > 1:
            for j in range(len(cfg["batch"])):
                c = cp()
                c["batch"] = [cfg["batch"][j]]
                out.append(dict(rec, cfg=c))
        if cfg["max_evl"] > 1:
            c = cp()
            c["max_evl"] = max(1, cfg["max_evl"] // 2)
            out.append(dict(rec, cfg=c))
        for k in ("extra_pad", "dm_fault"):
            if cfg.get(k):
                c = cp()
                c.pop(k)
                c.pop("pad_coords", None)
                out.append(dict(rec, cfg=c))
        return out

    def coverage(self, results, tier):
        sigs, stats, drivers = set(), {}, {}
        for r in results:
            core.merge_counts(stats, r["stats"])
            if r["sig"] is not None:
                sigs.add(json.dumps(r["sig"]))
                drivers[r["sig"][0]] = drivers.get(r["sig"][0], 0) + 1
        return {
            "evaluations": len(results),
            "distinct_nontrivial": len(sigs),
            "rule": "one evaluation = one seeded optimisation (driver, batch incl. padding, randomly distorted start, step factor in 1e-4..min(2e-2, 1/L), force tolerance, evaluation cap incl. caps hit before convergence, SCF solver, optional carried-density fault) with every driver evaluation recorded, plus a solo twin of one batch member; every run is non-trivial (>= 1 evaluation); distinct = distinct configuration tuples",
            "samples": [r["sample"] for r in results if r.get("sample")][:3],
            "optimiser_evaluations_traced": stats.get("evaluations_traced", 0),
            "probes": stats.get("probes", {}),
            "drivers": drivers,
            "worst_observed": stats.get("max", {}),
            "tolerances_used": core.tolerances()["C20"],
            "components": {"real": ["Geometry_Optimization_SD.run/onestep", "Electronic_Structure in the real-driver stratum"], "stub": ["electronic structure (analytic pair potential with known curvature bound) in the stub stratum"]},
        }


def main(argv=None):
    return core.main(C20(), argv)
