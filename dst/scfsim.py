"""scfsim: SCF sessions (a batch followed through a history of MOVE / SOLVE / FAULT operations with a
carried density), executed in a fork()ed child under a line-event liveness clock.

Used by C03 (self-consistency of converged results, truthful flag, termination) and C04 (the answer
does not depend on the solver path / history).  Residuals are computed from the returned density
with the repository's Fock builder (operator correctness is C06's business) and an INDEPENDENT
re-diagonalisation (torch.linalg.eigh on the real-orbital block, no repository eigen-solver).
"""
import json
import math
import os
import sys

import numpy as np

from . import core, mdsim

# name -> (pool key, charge, multiplicity)
mdsim.POOL.setdefault("ch3", ([6, 1, 1, 1], [[0.0, 0.0, 0.0], [1.079, 0.0, 0.0], [-0.5395, 0.9344, 0.0], [-0.5395, -0.9344, 0.0]]))
mdsim.POOL.setdefault("oh", ([8, 1], [[0.0, 0.0, 0.0], [0.97, 0.0, 0.0]]))
mdsim.POOL.setdefault("nh4", ([7, 1, 1, 1, 1], [[0.0, 0.0, 0.0], [0.59, 0.59, 0.59], [-0.59, -0.59, 0.59], [-0.59, 0.59, -0.59], [0.59, -0.59, -0.59]]))
mdsim.POOL.setdefault("h3o", ([8, 1, 1, 1], [[0.0, 0.0, 0.1], [0.0, 0.93, -0.2], [0.805, -0.465, -0.2], [-0.805, -0.465, -0.2]]))
mdsim.POOL.setdefault("nh2", ([7, 1, 1], [[0.0, 0.0, 0.0], [1.02, 0.0, 0.0], [-0.25, 0.99, 0.0]]))
mdsim.POOL.setdefault("o1", ([8], [[0.0, 0.0, 0.0]]))
mdsim.POOL.setdefault("h1", ([1], [[0.0, 0.0, 0.0]]))
mdsim.POOL.setdefault("o2", ([8, 8], [[0.0, 0.0, 0.0], [1.21, 0.0, 0.0]]))
mdsim.POOL.setdefault("ch2", ([6, 1, 1], [[0.0, 0.0, 0.0], [1.08, 0.0, 0.0], [-0.72, 0.8, 0.0]]))

SPECIES = {
    "h2o": ("h2o", 0, 1),
    "nh3": ("nh3", 0, 1),
    "ch4": ("ch4", 0, 1),
    "h2co": ("h2co", 0, 1),
    "hf": ("hf", 0, 1),
    "c2h4": ("c2h4", 0, 1),
    "hcn": ("hcn", 0, 1),
    "h2": ("h2", 0, 1),
    "h2s": ("h2s", 0, 1),
    "hcl": ("hcl", 0, 1),
    "sih4": ("sih4", 0, 1),
    "nh4+": ("nh4", 1, 1),
    "h3o+": ("h3o", 1, 1),
    "oh-": ("oh", -1, 1),
    "h-": ("h1", -1, 1),
    "nh2-": ("nh2", -1, 1),
    "o2-": ("o1", -2, 1),
    "ch3.": ("ch3", 0, 2),
    "oh.": ("oh", 0, 2),
    "nh2.": ("nh2", 0, 2),
    "o2t": ("o2", 0, 3),
    "ch2t": ("ch2", 0, 3),
}
CLOSED_NEUTRAL = ["h2o", "nh3", "ch4", "h2co", "hf", "c2h4", "hcn", "h2"]
SECOND_ROW = ["h2s", "hcl", "sih4"]  # d-shell elements under PM6 (9 basis functions per atom slot)
NO_KSA = ("h2", "h-", "o2-")  # outside the Krylov solver's domain, see gen_session
CLOSED_IONS = ["nh4+", "h3o+", "oh-", "h-", "nh2-", "o2-"]
OPEN = ["ch3.", "oh.", "nh2.", "o2t", "ch2t"]

LINE_BUDGET = 5_000_000  # line events under seqm/ per solve; ordinary solves need 1e4 - 3.5e5


class Nontermination(BaseException):
    pass


def batch_arrays(names, rotate, distort=0.0, geom_seed=0):
    cfg = {"batch": [SPECIES[n][0] for n in names], "rotate": rotate, "distort": distort, "geom_seed": geom_seed}
    sp, xyz = mdsim.build_batch(cfg)
    ch = [float(SPECIES[n][1]) for n in names]
    mult = [float(SPECIES[n][2]) for n in names]
    return sp, xyz, ch, mult


def has_d(z):
    """Elements that carry a d shell under PM6 (main-group third row and below, transition metals)."""
    return 12 < z < 18 or 20 < z < 30 or 32 < z < 36 or 38 < z < 48 or 50 < z < 54 or 70 < z < 80 or z == 57


def real_orbital_index(species_row, method="AM1"):
    nbf = 9 if method == "PM6" else 4
    idx = []
    for a, z in enumerate(species_row):
        if nbf == 9 and has_d(z):
            idx += [nbf * a + j for j in range(9)]
        elif z > 1:
            idx += [nbf * a + j for j in range(4)]
        elif z == 1:
            idx += [nbf * a]
    return idx


def residuals(mol, uhf):
    """Per-molecule residuals of the returned density (all in absolute units)."""
    import torch

    from seqm.seqm_functions.energy import elec_energy
    from seqm.seqm_functions.fock import fock
    from seqm.seqm_functions.fock_u_batch import fock_u_batch
    from seqm.seqm_functions.hcore import hcore

    m = mol
    P = m.dm.detach()
    M, w, *_ = hcore(m)
    M, w = M.detach(), w.detach()
    p = {k: (v.detach() if torch.is_tensor(v) else v) for k, v in m.parameters.items()}
    nbf = 9 if m.method == "PM6" else 4
    W = torch.tensor([0])
    if m.method == "PM6":
        from seqm.seqm_functions.build_two_elec_one_center_int_D import calc_integral

        W = calc_integral(p["s_orb_exp_tail"], p["p_orb_exp_tail"], p["d_orb_exp_tail"], m.Z, m.nmol * m.molsize * m.molsize, m.maskd, P, p["F0SD"], p["G2SD"])
    args = (m.nmol, m.molsize, P, M, m.maskd, m.mask, m.idxi, m.idxj, w, W, p["g_ss"], p["g_pp"], p["g_sp"], p["g_p2"], p["h_sp"], m.method, p["s_orb_exp_tail"], p["p_orb_exp_tail"], p["d_orb_exp_tail"], m.Z, p["F0SD"], p["G2SD"])
    F = (fock_u_batch if uhf else fock)(*args)
    Hc = M.reshape(m.nmol, m.molsize, m.molsize, nbf, nbf).transpose(2, 3).reshape(m.nmol, nbf * m.molsize, nbf * m.molsize)
    out = []
    Ee = (elec_energy(P, F, Hc) - m.Eelec.detach()).abs()
    nel = None
    for i in range(m.nmol):
        idx = real_orbital_index(m.species[i].tolist(), m.method)
        blocks = [(P[i, s], F[i, s], float(m.nocc[i, s]), 1.0) for s in (0, 1)] if uhf else [(P[i], F[i], float(m.nocc[i]), 2.0)]
        r = {"sym": 0.0, "trace": 0.0, "idem": 0.0, "comm": 0.0, "rediag": 0.0, "gap": float("inf"), "pad": 0.0}
        tot = 0.0
        for Pb, Fb, nocc, occ in blocks:
            r["sym"] = max(r["sym"], float((Pb - Pb.T).abs().max()))
            r["trace"] = max(r["trace"], abs(float(torch.diagonal(Pb).sum()) - occ * nocc))
            r["idem"] = max(r["idem"], float((Pb @ Pb - occ * Pb).abs().max()))
            r["comm"] = max(r["comm"], float((Fb @ Pb - Pb @ Fb).abs().max()))
            mask = torch.ones(Pb.shape[0], dtype=torch.bool)
            mask[idx] = False
            if mask.any():
                r["pad"] = max(r["pad"], float(Pb[mask].abs().max()), float(Pb[:, mask].abs().max()))
            Fs = Fb[idx][:, idx]
            Fs = 0.5 * (Fs + Fs.T)
            e, v = torch.linalg.eigh(Fs)
            k = int(round(nocc))
            if 0 < k < len(idx):
                r["gap"] = min(r["gap"], float(e[k] - e[k - 1]))
            Pn = occ * v[:, :k] @ v[:, :k].T
            r["rediag"] = max(r["rediag"], float((Pn - Pb[idx][:, idx]).abs().max()))
            tot += float(torch.diagonal(Pb).sum())
        r["Eelec"] = float(Ee[i])
        q = m.q.detach()[i] if torch.is_tensor(m.q) else None
        r["charge_sum"] = abs(float(q.sum()) - float(m.tot_charge[i])) if q is not None else 0.0
        out.append(r)
    return out


def _child_session(rec):
    """Run one session; returns a list of per-solve records."""
    import warnings

    import torch

    import seqm.seqm_functions.scf_loop as SL
    from seqm.ElectronicStructure import Electronic_Structure
    from seqm.Molecule import Molecule
    from seqm.seqm_functions.constants import Constants

    torch.set_num_threads(1)
    torch.set_default_dtype(torch.float64)
    warnings.simplefilter("ignore")
    names = rec["batch"]
    sp_np, xyz_np, ch, mult = batch_arrays(names, rec["rotate"])
    species = torch.as_tensor(sp_np, dtype=torch.int64)
    x = torch.as_tensor(xyz_np)
    real = (species > 0).unsqueeze(-1)
    g = torch.Generator().manual_seed(rec["seed"] % (1 << 62))
    # faults act on the real-orbital block only (padding rows/columns of a density are never populated
    # by any caller; a fault there would test nothing the property speaks about)
    nb = (9 if rec["method"] == "PM6" else 4) * species.shape[1]
    rmask = torch.zeros(species.shape[0], nb, nb)
    for i_ in range(species.shape[0]):
        idx_ = torch.tensor(real_orbital_index(species[i_].tolist(), rec["method"]))
        rmask[i_][idx_.unsqueeze(1), idx_.unsqueeze(0)] = 1.0
    carried = {"P": None, "uhf": None, "geom": 0, "from": None}
    history = []  # densities of earlier solves (for the "stale" fault)
    out = []
    geom_id = 0
    refs = {}
    clock = {"n": 0, "where": None}
    root = os.sep + "seqm" + os.sep

    def local(frame, event, arg):
        if event == "line":
            clock["n"] += 1
            if clock["n"] > LINE_BUDGET:
                clock["where"] = f"{os.path.basename(frame.f_code.co_filename)}:{frame.f_lineno}:{frame.f_code.co_name}"
                raise Nontermination(clock["where"])
        return local

    def tracer(frame, event, arg):
        if root in frame.f_code.co_filename:
            return local
        return None

    def solve(cfgd, P0, cap, traced=True):
        sp = {"method": rec["method"], "scf_eps": cfgd["eps"], "scf_converger": [dict(c_) if isinstance(c_, dict) else c_ for c_ in cfgd["conv"]], "sp2": list(cfgd["sp2"]), "UHF": bool(cfgd["uhf"])}
        if cfgd.get("backward"):
            sp["scf_backward"] = int(cfgd["backward"])  # implicit (1) or unrolled (2) differentiable SCF: other code paths of the same solvers
        if cfgd.get("exc"):
            # excited states requested as well: the library may TIGHTEN the SCF threshold (to a tenth of the CIS tolerance),
            # it must never loosen the one the caller asked for
            sp["excited_states"] = {"n_states": 2, "method": "cis", "tolerance": float(cfgd["exc"])}
        if cfgd.get("grad"):
            # the other two selectable force evaluators (default: reverse-mode differentiation)
            sp["analytical_gradient"] = [True] if cfgd["grad"] == "analytical" else [True, "numerical"]
        mol = Molecule(Constants(), sp, x.clone(), species, charges=torch.tensor(ch), mult=torch.tensor(mult))
        mol.verbose = False
        es = Electronic_Structure(sp)
        # the unrolled-backward variant keeps the autograd graph of every iteration: bound its length (ordinary solves of the
        # pool need < 100 iterations; a solve that reaches the cap is flagged and not compared)
        SL.MAX_ITER = min(cap, 300) if cfgd.get("backward") == 2 else cap
        clock["n"] = 0
        clock["where"] = None
        if traced:
            sys.settrace(tracer)
        try:
            # the differentiable variants are exercised through their forward pass; their backward pass (gradients of
            # density-dependent outputs) is C07's subject, and with a density that is not a fixed point the implicit backward
            # of scf_backward = 1 recurses without bound (seen under seeded changes c03d / c04c: a wall-clock hang, which is
            # neither a replayable verdict nor this property)
            es(mol, P0=P0, do_force=not cfgd.get("backward"))
        finally:
            sys.settrace(None)
            SL.MAX_ITER = 1000
        return mol, es

    def convert(P, from_uhf, to_uhf):
        if P is None or from_uhf == to_uhf:
            return P
        if to_uhf:
            return torch.stack([P / 2, P / 2], dim=1)
        return P[:, 0] + P[:, 1]

    for op in rec["ops"]:
        if op["op"] == "MOVE":
            x = x + op["sigma"] * torch.randn(x.shape, generator=g) * real
            geom_id += 1
        elif op["op"] == "RECHARGE":
            # the caller now asks for ANOTHER charge state of the same geometry (two electrons removed) and - as one does -
            # starts it from the density at hand, which is a self-consistent density of the wrong electron count
            ch[int(op["mol"])] += float(op["dq"])
            geom_id += 1
        elif op["op"] == "FAULT":
            P = carried["P"]
            if P is None:
                continue
            kind, sig = op["kind"], op["sigma"]
            mk = rmask if P.dim() == 3 else rmask.unsqueeze(1)
            if kind == "noise":
                n = torch.randn(P.shape, generator=g) * sig * P.abs().max() * mk
                P = P + n + n.transpose(-1, -2)
            elif kind == "scale":
                P = P * (1.0 + sig)
            elif kind == "deidem":
                P = P + sig * (P @ P - (1.0 if carried["uhf"] else 2.0) * P)
            elif kind == "stale" and history:
                old = history[max(0, len(history) - 3)]
                if old[1] == carried["uhf"] and old[0].shape == P.shape:
                    P = old[0].clone()
            elif kind == "asym":
                n = torch.randn(P.shape, generator=g) * sig * P.abs().max() * mk
                P = P + n
            carried["P"] = P
            carried["from"] = f"fault:{kind}"
            if kind == "asym":
                carried["asym"] = True  # stays so until a successful solve replaces the carried matrix
        elif op["op"] == "SOLVE":
            c = op["cfg"]
            start = op["start"]
            P0 = None if start == "cold" else convert(carried["P"], carried["uhf"], c["uhf"])
            entry = {"op": op, "geom": geom_id, "start": start if P0 is not None else "cold", "from": carried["from"] if P0 is not None else None, "start_asymmetric": bool(P0 is not None and carried.get("asym"))}
            try:
                mol, es = solve(c, P0.clone() if P0 is not None else None, op.get("cap", 1000))
            except Nontermination as e:
                entry["nonterminating"] = str(e)
                entry["lines"] = clock["n"]
                out.append(entry)
                break
            except Exception as e:  # noqa: BLE001
                entry["exc"] = f"{type(e).__name__}: {str(e)[:200]}"
                entry["lines"] = clock["n"]
                out.append(entry)
                continue
            entry["lines"] = clock["n"]
            nc = es.notconverged.tolist()
            entry["notconverged"] = nc
            entry["finite"] = bool(torch.isfinite(mol.Etot).all() and (not torch.is_tensor(mol.force) or torch.isfinite(mol.force).all()) and torch.isfinite(mol.dm).all())
            if entry["finite"]:
                with torch.no_grad():
                    entry["res"] = residuals(mol, c["uhf"])
            entry["Etot"] = mol.Etot.detach().tolist()
            if c["uhf"] and mol.dm.dim() == 4:
                entry["spin"] = (mol.dm[:, 0] - mol.dm[:, 1]).detach().abs().amax(dim=(1, 2)).tolist()
            entry["force"] = mol.force.detach().tolist() if (torch.is_tensor(mol.force) and mol.force.numel()) else None
            entry["q"] = mol.q.detach().tolist() if torch.is_tensor(mol.q) else None
            e_mo = mol.e_mo.detach()
            entry["e_mo"] = (e_mo[:, 0] if e_mo.dim() == 3 else e_mo).tolist()
            if rec.get("want_ref"):
                if geom_id not in refs:
                    rcfg = {"eps": 1e-11, "conv": [2], "sp2": [False], "uhf": False}
                    try:
                        rm, res_ = solve(rcfg, None, 1000, traced=False)
                        with torch.no_grad():
                            rr = residuals(rm, False)
                        refs[geom_id] = {"Etot": rm.Etot.detach().tolist(), "force": rm.force.detach().tolist(), "q": rm.q.detach().tolist(), "e_mo": rm.e_mo.detach().tolist(), "gap": [r["gap"] for r in rr], "notconverged": res_.notconverged.tolist()}
                    except Exception as e:  # noqa: BLE001
                        refs[geom_id] = {"exc": str(e)[:100]}
                entry["ref"] = refs[geom_id]
            if not op.get("keep_carried"):
                carried.update(P=mol.dm.detach().clone(), uhf=bool(c["uhf"]), geom=geom_id, from_=None, asym=False)
                carried["from"] = "previous-solve"
                history.append((mol.dm.detach().clone(), bool(c["uhf"])))
            out.append(entry)
    return out


def thermally_cold(c, gap):
    """KSA solves use Fermi occupations at T_el: they coincide with the zero-temperature answer (to 1e-11) only while
    gap / (2 kB T_el) > 25.  Otherwise the smearing legitimately changes density and energy."""
    if c["conv"][0] != 3:
        return True
    return gap / (2.0 * 8.617333262e-5 * float(c["conv"][1]["T_el"])) > 25.0


def tau_of(c, sp2_weight=0.1):
    """The threshold the statement refers to: SCF eps or (a multiple of) the SP2 tolerance, whichever
    dominates, divided by (1 - alpha) for fixed mixing (a change of eps per iteration leaves eps/(1-alpha))."""
    alpha = c["conv"][1] if c["conv"][0] == 0 and len(c["conv"]) > 1 else 0.0
    alpha = min(alpha, 0.95)
    sp2 = c["sp2"][1] if c["sp2"][0] else 0.0
    if c["sp2"][0]:
        sp2 = min(max(sp2, 1e-7), 1e-3)  # the documented float64 window of the SP2 tolerance
    return max(c["eps"], sp2_weight * sp2) / (1.0 - alpha)


def gen_session(rng, closed_only=False, gap_safe=False):
    """-> record (batch, method, ops...)."""
    uhf_session = (not closed_only) and rng.random() < 0.3
    if uhf_session:
        pool = OPEN + CLOSED_NEUTRAL[:5] + ["oh-", "nh4+"]
    elif closed_only:
        # closed-shell ions (incl. full-shell atoms) are valid batch mates and have a single stable closed-shell solution too
        pool = CLOSED_NEUTRAL * 3 + CLOSED_IONS
    else:
        pool = CLOSED_NEUTRAL + CLOSED_IONS + CLOSED_IONS
    n = rng.choice([1, 1, 2, 2, 3])
    batch = [rng.choice(pool) for _ in range(n)]
    if uhf_session and not any(b in OPEN for b in batch):
        batch[0] = rng.choice(OPEN)
    if all(len(mdsim.POOL[SPECIES[b][0]][0]) < 2 for b in batch):
        # a batch without a single atom pair is rejected loudly by the library (C18 territory)
        batch.append(rng.choice(CLOSED_NEUTRAL[:5] if not uhf_session else OPEN[:3]))
    # species rows must be sorted inside a molecule only; batch order is free
    method = rng.choice(["AM1", "AM1", "PM3", "MNDO"])
    u_ext = rng.random()
    if not uhf_session and u_ext < 0.14:
        # PM6 with d orbitals (9 basis functions per atom slot; restricted only): at least one d-shell element
        method = "PM6"
        batch = [b if rng.random() < 0.5 else rng.choice(SECOND_ROW) for b in batch]
        if not any(b in SECOND_ROW for b in batch):
            batch[rng.randrange(len(batch))] = rng.choice(SECOND_ROW)
    elif not uhf_session and u_ext < 0.24:
        # third-row elements under the sp-only Hamiltonians
        batch[rng.randrange(len(batch))] = rng.choice(SECOND_ROW)
    # The Krylov solver [3, {...}] (restricted, sp basis only) needs a LUMO for its chemical potential and a residual
    # that does not vanish exactly: full-shell atoms (H-, O2-) and H2 (self-consistent after one step by symmetry) are
    # outside its domain (loud errors / NaN flagged as not converged, DESIGN section 13) and are not combined with it.
    ksa_ok = not uhf_session and method != "PM6" and not any(b in NO_KSA for b in batch)
    # CIS needs occupied AND virtual orbitals in every molecule and the sp basis; homogeneous or mixed batches both work
    exc_ok = method != "PM6" and not any(b in ("h-", "o2-", "h2") for b in batch)
    ops = []

    def cfg():
        if uhf_session:
            conv = rng.choice([[0, rng.choice([0.0, 0.2, 0.5, 0.8])], [1], [1]])
            sp2 = [False]
        else:
            conv = rng.choice([[0, rng.choice([0.0, 0.2, 0.5, 0.8])], [1], [1], [2], [2]])
            sp2 = [False] if rng.random() < 0.55 else [True, rng.choice([1e-4, 1e-5, 1e-6, 1e-7, 1e-9])]
            if closed_only and method != "PM6" and rng.random() < 0.15:
                out = {"eps": rng.choice([1e-4, 1e-6, 1e-8]), "conv": [1], "sp2": [False], "uhf": True}
                if rng.random() < 0.4:
                    out["grad"] = rng.choice(["analytical", "semi-numerical"])
                return out
            u = rng.random()
            if ksa_ok and u < 0.15:
                ksa = {"T_el": rng.choice([300.0, 1000.0, 1500.0]), "max_rank": rng.randint(1, 4), "err_threshold": 0.0}
                return {"eps": rng.choice([1e-4, 1e-6, 1e-8, 1e-10]), "conv": [3, ksa], "sp2": [False], "uhf": False}
            if 0.15 <= u < 0.27:
                # the differentiable variants of the same solvers (implicit / unrolled backward)
                return {"eps": rng.choice([1e-4, 1e-6, 1e-8, 1e-10]), "conv": conv, "sp2": [False], "uhf": False, "backward": rng.choice([1, 2, 2])}
        out = {"eps": rng.choice([1e-4, 1e-6, 1e-8, 1e-10]), "conv": conv, "sp2": sp2, "uhf": uhf_session}
        if method != "PM6" and rng.random() < 0.2:
            out["grad"] = rng.choice(["analytical", "semi-numerical"])
        if exc_ok and not uhf_session and not sp2[0] and rng.random() < 0.12:
            out["exc"] = rng.choice([1e-4, 1e-6])
        return out

    nops = rng.randint(3, 8)
    ops.append({"op": "SOLVE", "cfg": cfg(), "start": "cold", "cap": 1000})
    recharged = False
    while len(ops) < nops:
        u = rng.random()
        if not closed_only and not uhf_session and not recharged and u < 0.06:
            cands = [j for j, b in enumerate(batch) if b in ("h2o", "nh3", "ch4", "h2co", "hf", "c2h4", "hcn", "h2s", "hcl", "sih4")]
            if cands:
                recharged = True
                ops.append({"op": "RECHARGE", "mol": rng.choice(cands), "dq": 2})
                ops.append({"op": "SOLVE", "cfg": dict(cfg(), conv=rng.choice([[1], [2]]), sp2=[False]), "start": "carried", "cap": 1000})
                continue
        if u < 0.3:
            ops.append({"op": "MOVE", "sigma": rng.choice([0.005, 0.02, 0.05])})
        elif u < 0.5:
            ops.append({"op": "FAULT", "kind": rng.choice(["noise", "scale", "deidem", "stale", "asym"]), "sigma": rng.choice([1e-6, 1e-3, 1e-1])})
        else:
            cap = 1000 if (closed_only or rng.random() < 0.7) else rng.choice([1, 2, 3, 10, 50])
            ops.append({"op": "SOLVE", "cfg": cfg(), "start": rng.choice(["cold", "carried", "carried", "carried"]), "cap": cap})
    if ops[-1]["op"] != "SOLVE":
        ops.append({"op": "SOLVE", "cfg": cfg(), "start": "carried", "cap": 1000})
    if uhf_session and rng.random() < 0.6:
        # spin-density relaxation: a closed-shell mate in the UHF batch, a faulted (alpha != beta) carried
        # density, fixed mixing and a tight threshold
        if not any(b in CLOSED_NEUTRAL for b in batch):
            batch.append(rng.choice(["ch4", "nh3", "h2o", "hf"]))
        ops.append({"op": "FAULT", "kind": rng.choice(["noise", "asym"]), "sigma": rng.choice([1e-3, 1e-2, 1e-1])})
        ops.append({"op": "SOLVE", "cfg": {"eps": rng.choice([1e-8, 1e-10]), "conv": [0, rng.choice([0.0, 0.5, 0.8])], "sp2": [False], "uhf": True}, "start": "carried", "cap": 1000})
    if closed_only and rng.random() < 0.4:
        # tightening chain: the same solver from the same start with eps, eps/100, eps/1e4
        c0 = cfg()
        c0["eps"] = rng.choice([1e-4, 1e-5, 1e-6])
        if c0["sp2"][0]:
            c0["sp2"] = [True, 1e-7]
        st = rng.choice(["cold", "carried"])
        for j, f in enumerate((1.0, 1e-2, 1e-4)):
            ops.append({"op": "SOLVE", "cfg": dict(c0, eps=c0["eps"] * f), "start": st, "cap": 1000, "chain": j, "keep_carried": j < 2})
    return {"batch": batch, "method": method, "rotate": rng.randrange(1 << 30), "seed": rng.randrange(1 << 40), "ops": ops}


def run_session(rec, root, timeout=600):
    st, payload = core.run_in_child(_child_session, (rec,), timeout=timeout, stdout_path=os.path.join(root, "out.txt"))
    if st != 0 or not payload or "ok" not in payload:
        return None, payload
    return payload["ok"], None
