"""C11 - each output stream is written at exactly its own requested cadence.

The observable is a set of append-only logs (HDF5 groups, XYZ file, screen, checkpoints) produced
over simulated time by the real engines, possibly across several process incarnations.  Oracle 1:
a 30-line reference model of which step labels every stream must carry.  Oracle 2 (values): the
same seed is also run with every cadence = 1; every row of every sparse stream must equal exactly
the row with the same label in the dense run.
"""
import json
import os
import re
import shutil

import numpy as np

from . import core, iosim, mdsim
from .c10 import STUB_BATCHES

PROP = "C11"
CADS = [0, 1, 2, 3, 4, 5, 7, 11]
SCREEN_RE = re.compile(r"^\s*(\d+)((?: +-?[\d.]+ +-?[\d.e+-]+ -?[\d.e+-]+ -?[\d.e+-]+ \|\| )+)\s*$")


def gen_cfg(rng, real=False):
    if real:
        eng = rng.choice(["basic", "xl", "sh", "sh", "exc_basic"])
        cfg = {"engine": eng, "driver": "real", "rotate": rng.randrange(1 << 30), "scf_eps": 1e-8}
        if eng in ("sh", "exc_basic"):
            cfg["batch"] = rng.choice([["h2co"], ["h2co", "h2co"]])
            cfg["n_states"] = 2 if eng == "sh" else 3
            cfg["steps"] = rng.randint(3, 7)
        else:
            cfg["batch"] = rng.choice([["h2o"], ["h2o", "hf"]])
            cfg["steps"] = rng.randint(4, 10)
    else:
        eng = rng.choice(["basic", "basic", "langevin", "xl", "ksa", "xl_damp", "sh_model", "sh_model", "exc_basic", "exc_xl", "xl_esmd"])
        cfg = {"engine": eng, "driver": "stub", "batch": rng.choice(STUB_BATCHES), "steps": rng.randint(1, 40)}
        cfg["stub"] = {"pot": rng.choice(["harm", "morse"]), "gamma": 0.3}
        if rng.random() < 0.25:
            cfg["extra_pad"] = 1
        if eng in ("exc_basic", "exc_xl", "xl_esmd"):
            cfg["n_states"] = rng.randint(1, 4)
            cfg["active_state"] = rng.randint(0 if eng != "xl_esmd" else 1, cfg["n_states"])
        if eng == "sh_model":
            cfg["batch"] = rng.choice([["h2o"], ["h2o", "h2o"], ["nh3", "h2o"]])
            cfg["n_states"] = rng.randint(2, 4)
            cfg["model_seed"] = rng.randrange(1 << 20)
            cfg["substeps"] = rng.choice([None, 8])
            cfg["initial_state"] = [rng.randint(1, cfg["n_states"]) for _ in cfg["batch"]]
            cfg.pop("extra_pad", None)
    S = cfg["steps"]
    cfg["dt"] = 0.2 if eng in ("sh", "sh_model") else rng.choice([0.25, 0.5])
    cfg["temp"] = 300.0 if eng != "sh_model" else 5000.0
    cfg["seed"] = rng.randrange(1 << 20)
    if eng in ("langevin", "xl_damp"):
        cfg["damp"] = 20.0
    if eng in ("xl", "xl_damp", "ksa", "exc_xl", "xl_esmd"):
        cfg["k"] = rng.randint(3, 9)
    pick = lambda: rng.choice(CADS + [S + 3, S]) if S > 0 else 1
    h5 = {"data": pick(), "coordinates": pick(), "velocities": pick(), "forces": pick()}
    if eng in ("sh", "sh_model"):
        h5["nonadiabatic"] = rng.choice([0, 1, 2, 3, 5, S + 3])
    if rng.random() < 0.25:
        h5["write_mo"] = 1
    if eng in ("exc_basic", "exc_xl", "xl_esmd") and rng.random() < 0.3:
        h5["transition_properties"] = 1
    if eng in ("exc_basic", "exc_xl", "xl_esmd"):
        h5["transition_density_matrices"] = rng.choice([0, 1, 2, 3, 5, S + 3])
    nmol = len(cfg["batch"])
    u = rng.random()
    if u < 0.05:
        molid = []
    else:
        molid = sorted(rng.sample(range(nmol), rng.randint(1, nmol)))
    cfg["out"] = {"molid": molid, "print": pick(), "ckpt": pick(), "xyz": pick(), "h5": h5}
    if rng.random() < 0.08:
        # the documented backward-compatible keys: 'thermo' (screen) and 'dump' (XYZ and HDF5 data together)
        cfg["legacy_keys"] = True
        cfg["out"]["xyz"] = h5["data"]
    cfg["reuse_P"] = True
    cfg["remove_com"] = None
    # resume points: 0, 1 or 2 soft/hard crashes at generated steps (only meaningful with checkpoints)
    crashes = []
    ck = cfg["out"]["ckpt"]
    if 0 < ck < S and rng.random() < 0.45:
        n = rng.choice([1, 1, 2])
        lo = ck
        for _ in range(n):
            if lo >= S:
                break
            s = rng.randint(lo + 1, S)
            kind = rng.choice(["soft@step", "hard@line"])
            if kind == "soft@step":
                crashes.append({"kind": "soft", "clock": "step", "step": s, "off": 0})
            else:
                crashes.append({"kind": "hard", "clock": "line", "step": s, "off": rng.randint(1, 60)})
            lo = ((s - 1) // ck) * ck
            lo = max(lo, ck)
        cfg_io = True
    cfg["io_seam"] = rng.random() < 0.7
    u = rng.random()
    if cfg.get("legacy_keys"):
        if rng.random() < 0.5:
            # 'dump' next to explicit cadences for the two streams it feeds: the explicit value wins, a 0 included
            cfg["legacy_explicit"] = {"xyz": rng.choice([0, 0, 1, 3]), "data": rng.choice([0, 0, 2, 5]), "dump": rng.choice([1, 2, 3])}
            cfg["out"]["xyz"] = cfg["legacy_explicit"]["xyz"]
            cfg["out"]["h5"]["data"] = cfg["legacy_explicit"]["data"]
    elif u < 0.05:
        # no HDF5 output at all, requested by leaving the 'h5' key out of the output dictionary (every cadence defaults to 0)
        cfg["out"]["h5"] = {k: 0 for k in cfg["out"]["h5"]}
        cfg["omit_h5"] = True
    elif u < 0.15:
        # streams suppressed by leaving their key out instead of writing a 0
        cfg["sparse_h5_keys"] = True
    elif u < 0.22:
        # cadences computed by the caller with NumPy arrive as numpy integers
        cfg["numpy_cadences"] = True
    return cfg, crashes


def dense_of(cfg):
    d = json.loads(json.dumps(cfg))
    d["out"]["h5"] = {k: 1 for k in d["out"]["h5"]}
    d["out"]["xyz"] = 1
    d["out"]["print"] = 1
    d["out"]["ckpt"] = 0
    d["out"]["molid"] = list(range(len(cfg["batch"])))
    return d


def execute(record):
    root = core.make_scratch(f"c11-{record.get('i', 0)}-{core.digest(record)}")
    try:
        return _execute(record, root)
    finally:
        shutil.rmtree(root, ignore_errors=True)


def _run_all(cfg, crashes, workdir, opts):
    hist = []
    inc, mode = 0, "fresh"
    queue = list(crashes)
    while True:
        f = queue.pop(0) if queue else None
        r = mdsim.run_incarnation(cfg, workdir, inc, f, mode, opts)
        fired = (r.get("report") or {}).get("fired")
        _, kill = iosim.read_log(os.path.join(workdir, f"events.{inc}.log"))
        fired = kill if isinstance(kill, dict) else fired
        hist.append({"inc": inc, "mode": mode, "status": r["status"], "fired": fired, "exc": r.get("exc")})
        crashed = r["status"] == 137 or (r["status"] == 3 and (r.get("exc") or {}).get("type") == "InjectedCrash")
        if crashed and os.path.exists(os.path.join(workdir, "t.restart.pt")):
            inc += 1
            mode = "resume"
            if inc > len(crashes) + 1:
                raise core.HarnessError("resume loop did not terminate")
            continue
        return hist


def _execute(record, root):
    cfg, crashes = record["cfg"], record.get("crashes", [])
    failures, stats = [], {"probes": {}, "streams_checked": 0, "rows_compared": 0}
    opts = {"io_seam": bool(cfg.get("io_seam", True)), "line_clock": any(c["clock"] == "line" for c in crashes)}
    sparse, dense = os.path.join(root, "sparse"), os.path.join(root, "dense")
    os.makedirs(sparse)
    os.makedirs(dense)
    hist = _run_all(cfg, crashes, sparse, opts)
    last = hist[-1]
    if last["status"] != 0:
        if last["status"] in (137, 3) and last["fired"] is not None:
            # crashed before the first checkpoint existed: nothing to resume, nothing to check
            return core.Result.make(record, [], stats, sig=None, nontrivial=False, sample={"cfg": cfg, "crashes": crashes, "note": "crash before first checkpoint"})
        failures.append(core.fail("run-failed", f"run raised: {last.get('exc')}", history=hist))
        return core.Result.make(record, failures, stats, sig=None, nontrivial=False)
    dcfg = dense_of(cfg)
    dh = _run_all(dcfg, [], dense, {"io_seam": False})
    if dh[-1]["status"] != 0:
        # the all-cadences-1 variant is itself a valid configuration of the system under test
        failures.append(core.fail("run-failed", f"the same configuration with every cadence set to 1 raised: {dh[-1].get('exc')}", cfg=dcfg))
        return core.Result.make(record, failures, stats, sig=None, nontrivial=False)
    got, problems = mdsim.dump_files(sparse, cfg)
    ref, rp = mdsim.dump_files(dense, dcfg)
    if rp:
        raise core.HarnessError(f"dense reference unreadable: {rp}")
    if problems:
        failures.append(core.fail("unreadable", f"output cannot be read back: {problems[:3]}", history=hist))
    exp = mdsim.expected_streams(cfg)
    S = cfg["steps"]
    h5c = cfg["out"]["h5"]
    resumed = len(hist) > 1
    nmol = len(cfg["batch"])

    # ---- files that must not exist (molecule not selected / cadence 0 / empty selection) ----------
    for m in range(nmol):
        sel = m in cfg["out"]["molid"]
        any_h5 = any(int(v) > 0 for k, v in h5c.items() if k in ("data", "coordinates", "velocities", "forces")) or (
            cfg["engine"] in ("sh", "sh_model") and int(h5c.get("nonadiabatic", 0)) > 0
        ) or (cfg["engine"] in mdsim.EXC_ENGINES + ("sh",) and int(h5c.get("transition_density_matrices", 0)) > 0)
        h5_exists = os.path.exists(os.path.join(sparse, f"t.{m}.h5"))
        xyz_exists = os.path.exists(os.path.join(sparse, f"t.{m}.xyz"))
        if h5_exists != (sel and any_h5):
            failures.append(core.fail("h5-file-presence", f"molecule {m}: h5 file exists={h5_exists}, expected {sel and any_h5}", cfg=cfg))
        if xyz_exists != (sel and cfg["out"]["xyz"] > 0):
            failures.append(core.fail("xyz-file-presence", f"molecule {m}: xyz file exists={xyz_exists}, expected {sel and cfg['out']['xyz'] > 0}", cfg=cfg))

    # ---- label and value oracles per selected molecule ------------------------------------------
    groups = {
        "data": (
            "data/steps",
            ["data/thermo/T", "data/thermo/Ek", "data/thermo/Ep", "data/properties/ground_dipole", "data/mo/homo_lumo_gap", "data/excitation/transition_dipole", "data/excitation/oscillator_strength"],
        ),
        "coordinates": ("coordinates/steps", ["coordinates/values"]),
        "velocities": ("velocities/steps", ["velocities/values"]),
        "forces": ("forces/steps", ["forces/values"]),
        "nonadiabatic": (
            "data/nonadiabatic/steps",
            ["data/nonadiabatic/active_surface", "data/nonadiabatic/electronic_amplitudes", "data/nonadiabatic/NACT"],
        ),
        "tdm": (
            "data/excitation/transition_density_matrices/steps",
            ["data/excitation/transition_density_matrices/values"],
        ),
    }
    if cfg["engine"] in ("sh", "sh_model") + mdsim.EXC_ENGINES:
        groups["data"][1].append("data/excitation/state_energies")
    for m in cfg["out"]["molid"]:
        for stream, (skey, vkeys) in groups.items():
            want = exp[stream]
            have = got.get(f"{m}:h5:{skey}")
            stats["streams_checked"] += 1
            if not want:
                if have is not None:
                    failures.append(core.fail(f"suppressed-stream-present/{stream}", f"mol {m}: cadence 0 but {skey} exists with {have.tolist()[:8]}"))
                continue
            if have is None:
                failures.append(core.fail(f"stream-missing/{stream}", f"mol {m}: {skey} absent, expected labels {want[:8]}..."))
                continue
            if have.tolist() != want:
                failures.append(
                    core.fail(
                        f"labels/{stream}",
                        f"mol {m}: {skey} = {have.tolist()[:14]} (n={len(have)}) but the stream is due at {want[:14]} (n={len(want)}); cadences={h5c} S={S} resumed={resumed}",
                    )
                )
                continue
            dl = ref[f"{m}:h5:{skey}"].tolist()
            idx = [dl.index(s) for s in want]
            for vk in vkeys:
                a = got.get(f"{m}:h5:{vk}")
                b = ref.get(f"{m}:h5:{vk}")
                if a is None or b is None:
                    if a is None and b is not None:
                        failures.append(core.fail(f"values-missing/{stream}", f"mol {m}: dataset {vk} absent"))
                    continue
                if a.shape[0] != len(want):
                    failures.append(core.fail(f"rows/{stream}", f"mol {m}: {vk} has {a.shape[0]} rows, expected {len(want)}"))
                    continue
                b = b[idx]
                stats["rows_compared"] += len(want)
                if not np.array_equal(a, b, equal_nan=True):
                    rows = np.nonzero((a != b).reshape(len(want), -1).any(axis=1))[0]
                    failures.append(
                        core.fail(
                            f"values/{stream}",
                            f"mol {m}: {vk} rows {[want[i] for i in rows[:6]]} differ from the values the system had at those steps (dense run); cadences={h5c}",
                        )
                    )
        # XYZ
        want = exp["xyz"]
        lab = got.get(f"{m}:xyz:labels")
        if want:
            stats["streams_checked"] += 1
            if lab is None:
                failures.append(core.fail("stream-missing/xyz", f"mol {m}: xyz file absent"))
            elif lab != want:
                failures.append(core.fail("labels/xyz", f"mol {m}: XYZ frames {lab[:14]} but due {want[:14]} (xyz every {cfg['out']['xyz']}, S={S}, resumed={resumed})"))
            else:
                fr = mdsim.xyz_frames(got[f"{m}:xyz:raw"])
                dl = ref[f"{m}:h5:coordinates/steps"].tolist()
                dv = ref[f"{m}:h5:coordinates/values"]
                for s in want:
                    x = dv[dl.index(s)]
                    if fr[s].shape != x.shape or np.abs(fr[s] - x).max() > 0.5000001e-5:
                        failures.append(core.fail("values/xyz", f"mol {m}: XYZ frame {s} does not match the coordinates of step {s}"))
                        break
                # the comment line of a frame (step label, E_total) is that of the frame's own step: the dense
                # run wrote a frame at every step
                cm = lambda raw: {int(l.split()[1]): l for l in raw.decode(errors="replace").split("\n") if l.startswith("step:")}
                cs, cd = cm(got[f"{m}:xyz:raw"]), cm(ref[f"{m}:xyz:raw"])
                badc = [s for s in want if cs.get(s) != cd.get(s)]
                if badc:
                    failures.append(core.fail("values/xyz", f"mol {m}: comment line of XYZ frame(s) {badc[:6]} is {cs.get(badc[0])!r} but the system had {cd.get(badc[0])!r} at that step (xyz every {cfg['out']['xyz']}, data every {h5c.get('data')}, screen every {cfg['out']['print']})"))

    # ---- screen and checkpoint streams -----------------------------------------------------------
    if cfg["out"]["molid"]:
        scr = []
        for h in hist:
            labs = []
            p = os.path.join(sparse, f"stdout.{h['inc']}.txt")
            for ln in open(p, errors="replace"):
                mm = SCREEN_RE.match(ln)
                if mm:
                    labs.append((int(mm.group(1)), mm.group(2)))
            scr.append(labs)
        want = exp["screen"]
        stats["streams_checked"] += 1
        if not resumed:
            have = [s for s, _ in scr[0]]
            if have != want:
                failures.append(core.fail("labels/screen", f"screen lines at {have[:14]} but due {want[:14]} (print every {cfg['out']['print']})"))
            else:
                # printed values are those of that step (first selected molecule, to printed precision)
                m0 = cfg["out"]["molid"][0]
                dl = ref[f"{m0}:h5:data/steps"].tolist()
                for s, txt in scr[0]:
                    T = float(txt.split()[0])
                    Tref = float(ref[f"{m0}:h5:data/thermo/T"][dl.index(s)])
                    if abs(T - Tref) > 0.00501:
                        failures.append(core.fail("values/screen", f"screen line of step {s} shows T={T}, the system had T={Tref}"))
                        break
        else:
            union = sorted({s for labs in scr for s, _ in labs})
            if union != want or any([s for s, _ in labs] != sorted({s for s, _ in labs}) for labs in scr):
                failures.append(core.fail("labels/screen", f"screen lines over {len(hist)} incarnations cover {union[:14]} but due {want[:14]}"))
    if opts["io_seam"]:
        # checkpoint stream: steps at which os.replace completed, over all incarnations
        cks = []
        for h in hist:
            ev, _ = iosim.read_log(os.path.join(sparse, f"events.{h['inc']}.log"))
            cks += [e["step"] for e in ev if e["kind"] == "os.replace.after"]
        want = exp["checkpoint"]
        stats["streams_checked"] += 1
        if not resumed and cks != want:
            failures.append(core.fail("labels/checkpoint", f"checkpoints completed at steps {cks[:14]} but due {want[:14]} (checkpoint every {cfg['out']['ckpt']})"))
        if resumed and (sorted(set(cks)) != sorted(set(want) & set(cks)) or (cks and max(cks) != (want[-1] if want else None))):
            failures.append(core.fail("labels/checkpoint", f"checkpoints over incarnations at {cks[:14]}, due {want[:14]}"))
        if want and os.path.exists(os.path.join(sparse, "t.restart.pt")) is False:
            failures.append(core.fail("labels/checkpoint", "no checkpoint file although checkpoints were due"))
    pos = sorted({int(v) for v in list(h5c.values()) + [cfg["out"]["xyz"], cfg["out"]["print"], cfg["out"]["ckpt"]] if int(v) > 0})
    nontrivial = len(pos) >= 2 or any(int(v) == 0 for v in h5c.values())
    if any(int(v) > S for v in h5c.values()):
        stats["probes"]["cadence_larger_than_run"] = 1
    if not cfg["out"]["molid"]:
        stats["probes"]["empty_molid"] = 1
    if resumed:
        stats["probes"]["resumed_runs"] = 1
        stats["probes"]["resumed_twice"] = 1 if len(hist) > 2 else 0
    sig = [cfg["engine"], cfg["driver"], S, sorted(h5c.items()), cfg["out"]["xyz"], cfg["out"]["print"], cfg["out"]["ckpt"], len(hist), cfg["out"]["molid"]]
    stats["sim_time_fs"] = S * cfg["dt"] * 2
    sample = {"cfg": cfg, "crashes": crashes, "incarnations": len(hist), "expected_labels": {k: v[:10] for k, v in exp.items()}}
    return core.Result.make(record, failures, stats, sig=sig, nontrivial=nontrivial, sample=sample, digest_=core.digest({"files": mdsim.files_digest(got), "hist": [(h["status"], json.dumps(h["fired"], sort_keys=True)) for h in hist]}))


class C11(core.Check):
    prop = PROP
    level = "exploration"
    module = "dst.c11"
    budget = {"quick": 170, "thorough": 1700}
    runs = {"quick": 900, "thorough": 14000}
    real_frac = {"quick": 0.012, "thorough": 0.02}
    assumptions = [
        "the values a stream must carry are taken from a second run of the same seed with every cadence = 1 (output cadences must not influence the dynamics; equality is exact)",
        "transition-density-matrix stream is outside the statement and not checked",
        "stub electronic structure except for the stated real-driver fraction (which supplies the nonadiabatic stream through the real SurfaceHoppingDynamics)",
    ]

    def plan(self, tier, seed):
        recs = []
        for i in range(self.runs[tier]):
            rng = core.rng_for(seed, PROP, i)
            cfg, crashes = gen_cfg(rng, real=rng.random() < self.real_frac[tier])
            recs.append({"i": i, "cfg": cfg, "crashes": crashes})
        return recs

    def shrink_candidates(self, rec):
        cfg, crashes = rec["cfg"], rec.get("crashes", [])
        out = []

        def v(c=None, cr=None):
            return {"i": rec.get("i", 0), "cfg": c if c is not None else cfg, "crashes": crashes if cr is None else cr}

        cp = lambda: json.loads(json.dumps(cfg))
        for j in range(len(crashes)):
            out.append(v(cr=crashes[:j] + crashes[j + 1 :]))
        if len(cfg["batch"]) > 1:
            c = cp()
            c["batch"] = c["batch"][:1]
            c["out"]["molid"] = [0] if c["out"]["molid"] else []
            out.append(v(c))
        last = max([c["step"] for c in crashes] + [0])
        if cfg["steps"] > max(last, 2) + 1:
            for s in (max(last + 1, 2), max(last + 1, cfg["steps"] // 2), cfg["steps"] - 1):
                c = cp()
                c["steps"] = s
                out.append(v(c))
        for k in list(cfg["out"]["h5"]) + ["xyz", "print", "ckpt"]:
            cur = cfg["out"]["h5"][k] if k in cfg["out"]["h5"] else cfg["out"][k]
            for new in (0, 1):
                if cur != new and not (k == "ckpt" and crashes):
                    c = cp()
                    if k in c["out"]["h5"]:
                        c["out"]["h5"][k] = new
                    else:
                        c["out"][k] = new
                    out.append(v(c))
        if cfg["engine"] != "basic" and cfg["driver"] == "stub":
            c = cp()
            c["engine"] = "basic"
            out.append(v(c))
        if cfg.get("extra_pad"):
            c = cp()
            c.pop("extra_pad")
            out.append(v(c))
        return out

    def coverage(self, results, tier):
        sigs, stats, engines = set(), {}, {}
        for r in results:
            core.merge_counts(stats, r["stats"])
            if r["nontrivial"] and r["sig"] is not None:
                sigs.add(json.dumps(r["sig"]))
            if r["sig"]:
                e = f"{r['sig'][0]}/{r['sig'][1]}"
                engines[e] = engines.get(e, 0) + 1
        samples = [r["sample"] for r in results if r.get("sample") and r["nontrivial"]][:2] + [r["sample"] for r in results if r.get("sample") and r["sample"].get("incarnations", 1) > 1][:1]
        return {
            "evaluations": len(results),
            "distinct_nontrivial": len(sigs),
            "rule": "one evaluation = one seeded (engine, run length, cadence tuple for data/coordinates/velocities/forces/[nonadiabatic]/xyz/screen/checkpoint, molecule-id subset, 0-2 crash+resume points) run plus a dense twin of the same seed; non-trivial = at least two different positive cadences or a suppressed stream; distinct = distinct full tuples",
            "samples": samples or [results[0]["sample"]],
            "streams_checked": stats.get("streams_checked", 0),
            "rows_compared_exactly": stats.get("rows_compared", 0),
            "probes": stats.get("probes", {}),
            "engines": engines,
            "simulated_time_fs": stats.get("sim_time_fs", 0),
            "components": {"real": ["MD run loops, HDF5Writer, XYZWriter, OutputConfig, checkpoint writer, run_from_checkpoint", "h5py/HDF5 (file-object driver in 70% of runs, production sec2 driver in 30%)"], "stub": ["electronic structure in the stub stratum"]},
        }


def main(argv=None):
    return core.main(C11(), argv)
