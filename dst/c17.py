"""C17 - surface hopping preserves norm, energy and per-trajectory isolation.

shsim: the REAL SurfaceHoppingDynamics run loop (_do_integrator_step, _detect_crossings,
_propagate_electronic, _attempt_hop, _rescale_velocity_along_nac, _after_electronic_update, cache
shifting, hold-off counters) driven through the seam the repository's own Tully script uses
(a subclass that supplies the electronic structure).  Two kinds of supplied electronic structure:
 scripted  per-step energies, antisymmetric couplings (with spikes), state amplitudes (with swaps that
           make _detect_crossings fire), NAC vectors (incl. exactly perpendicular ones) - a stateful
           stream of arbitrary inputs; the hop draw goes through an RNG proxy that records / scales it.
 model     an N-state diabatic model along a bond coordinate (Hellmann-Feynman forces and couplings,
           momentum conserving): whole trajectories, total energy across hops.
 tully     scripts/tully_surface_hopping/TullyModels.TullyFSSH, batch vs solo.
Wrappers observe every call of the hop logic; oracles are small reference rules (selection rule,
energy-conservation quadratic, permutation) plus re-runs with one trajectory changed (isolation)
and with halved sub-steps (integrator order).
"""
import json
import math
import os
import shutil

import numpy as np

from . import core

PROP = "C17"
HBAR = 0.6582119514


def _child(rec):
    import types

    import torch

    import seqm.MolecularDynamics as MDm
    import seqm.NonadiabaticDynamics as NDm
    from seqm.MolecularDynamics import CONSTANTS
    from seqm.seqm_functions.constants import Constants

    torch.set_num_threads(1)
    torch.set_default_dtype(torch.float64)
    tol = core.tolerances()["C17"]
    KE = CONSTANTS.KINETIC_ENERGY_SCALE

    class StubES(torch.nn.Module):
        def __init__(s, *a, **k):
            super().__init__()
            s._p = torch.nn.Parameter(torch.zeros(1), requires_grad=False)
            s.conservative_force = types.SimpleNamespace(energy=types.SimpleNamespace(md=False, namd=False, excited_states={"n_states": 2, "method": "cis", "tolerance": 1e-6}))

    MDm.esdriver = StubES

    class Proxy:
        def __init__(self):
            self.scale = None  # per-molecule factors applied to the next hop draw
            self.last = None

        def __getattr__(self, k):
            return getattr(torch, k)

        def rand(self, *a, **k):
            r = torch.rand(*a, **k)
            if self.scale is not None and r.shape == self.scale.shape:
                r = r * self.scale
            self.last = r.clone()
            return r

    proxy = Proxy()
    NDm.torch = proxy

    class Mol:
        def __init__(self, nmol, masses, x, v):
            natom = len(masses)
            self.coordinates = x.clone()
            self.velocities = v.clone()
            self.species = torch.ones(nmol, natom, dtype=torch.int64)
            self.species[:, 0] = 6
            m = torch.tensor(masses)
            self.mass = m.view(1, natom, 1).expand(nmol, natom, 1).clone()
            self.mass_inverse = 1.0 / self.mass
            self.acc = torch.zeros_like(self.coordinates)
            self.force = torch.zeros_like(self.coordinates)
            self.dm = torch.zeros(nmol, 1, 1)
            self.cis_amplitudes = None
            self.cis_energies = None
            self.transition_density_matrices = None
            self.Etot = torch.zeros(nmol)
            self.const = Constants()
            self.num_atoms = torch.full((nmol,), float(natom))
            self.nmol = nmol
            self.norb = torch.full((nmol,), 4 * natom)
            self.nocc = torch.full((nmol,), 2)
            self.active_state = 1
            self.old_mos = None
            self.dipole = torch.zeros(nmol, 3)
            self.e_gap = torch.ones(nmol)
            self.w = None
            self.verbose = False

    # ------------------------------------------------------------------------------------------
    class Base(NDm.SurfaceHoppingDynamics):
        """Shared overrides: electronic structure supplied by self.es(molecule) -> (E, force_fn, nd, amp)."""

        def __init__(self, ns, timestep, substeps, decohere, detect, damp=None):
            params = {
                "method": "AM1",
                "elements": [0, 1, 6],
                "scf_eps": 1e-8,
                "scf_converger": [1],
                "excited_states": {"n_states": ns},
                "nonadiabatic": {"compute_nac": True, "detect_crossings": detect, "decohere_on_hop": decohere},
            }
            out = {"molid": [], "prefix": "/nonexistent/x", "print every": 0, "checkpoint every": 0, "xyz": 0, "h5": {}}
            super().__init__(params, timestep=timestep, output=out, damp=damp)
            self._nstates = ns
            self._ns = ns
            self._electronic_substeps = substeps
            self.obs = []  # observations of the current step
            self.log = []  # per-step records
            self.nstep = 0

        def _setup_states(self, molecule):
            self._nstates = self._ns
            self._ensure_active_states(molecule.species.shape[0], molecule.coordinates.device)

        def initialize_velocity(self, molecule, vel_com=True):
            return super().initialize_velocity(molecule, vel_com=False)

        def initialize(self, molecule, remove_com=None, learned_parameters=None, *a, **k):
            self._setup_states(molecule)
            self._init_coeffs(molecule)
            molecule.active_state = self._active_states + 1
            self._compute_electronic_structure(molecule, learned_parameters or {})
            return super().initialize(molecule, remove_com=remove_com, learned_parameters=learned_parameters, *a, **k)

    # ---- observation wrappers (shared) ----------------------------------------------------------
    def instrument(dyn, failures, stats, script=None):
        orig_prop = dyn._propagate_electronic
        orig_attempt = dyn._attempt_hop
        orig_rescale = dyn._rescale_velocity_along_nac
        orig_after = dyn._after_electronic_update
        cur = {}

        def fail(oracle, msg):
            if len(failures) < 12:
                failures.append({"oracle": oracle, "msg": f"step {dyn.nstep}: {msg}", "detail": {}})

        def prop(cache_old, cache_new, substeps=None):
            n0 = dyn.populations.sum(1).clone()
            nd_o = cache_old.get("nac_dot")
            nd_n = cache_new["nac_dot"]
            nd_o = nd_n if not torch.is_tensor(nd_o) else nd_o
            orig_prop(cache_old, cache_new, substeps=substeps)
            n1 = dyn.populations.sum(1)
            if substeps is None:
                dmax = torch.maximum(nd_o.abs(), nd_n.abs()).amax()
                dj = (nd_n - nd_o).abs().amax()
                chi = dyn.timestep * torch.maximum(dmax, dj)
                nsub = min(8 + int(torch.ceil(torch.clamp((chi - 1.0) / 0.25, min=0.0)).item()), 80)
                if nsub > 8:
                    stats["probes"]["substeps_above_base"] = stats["probes"].get("substeps_above_base", 0) + 1
            else:
                nsub = int(substeps)
            h = dyn.timestep / nsub
            rho = torch.maximum(torch.linalg.matrix_norm(nd_o, ord=2), torch.linalg.matrix_norm(nd_n, ord=2))
            e0, e1 = cache_old["energies"], cache_new["energies"]
            wmax = torch.maximum((e0.max(1).values - e0.min(1).values), (e1.max(1).values - e1.min(1).values)) / HBAR
            x = h * (rho + wmax)
            bound = tol["norm_K"] * nsub * x**5 * (h * rho) + 1e-11
            drift = (n1 - n0).abs() / n0.clamp(min=1e-300)  # relative: an earlier unresolved step may have left norm != 1
            cur["norm_drift"] = drift.clone()
            cur["nsub"] = nsub
            cur["x"] = x.clone()
            resolved = x <= 1.0
            if not resolved.all():
                # user-fixed sub-steps too coarse for this coupling (h*rho beyond the RK4 asymptotic/stability
                # range): "accuracy order of the integrator" gives no bound here
                stats["probes"]["unresolved_steps_skipped"] = stats["probes"].get("unresolved_steps_skipped", 0) + 1
            ratio = float((drift / bound)[resolved].max()) if resolved.any() else 0.0
            stats["max"]["norm_drift_over_bound"] = max(stats["max"].get("norm_drift_over_bound", 0.0), ratio)
            if ratio > 1.0:
                m = int(torch.argmax(torch.where(resolved, drift / bound, torch.zeros_like(drift))))
                fail("norm-drift", f"trajectory {m}: population norm changes by {drift[m]:.3e} in one nuclear step; RK4 with {nsub} sub-steps, |D|={rho[m]:.3g}/fs, gap/hbar={wmax[m]:.3g}/fs allows {bound[m]:.3e}")
            # antisymmetric hop integral with zero diagonal: needed for probabilities to be meaningful
            hi = dyn._hop_integral
            if (hi.diagonal(dim1=1, dim2=2).abs() > 0).any():
                fail("hop-integral-diagonal", "hop integral has a non-zero diagonal")

        def attempt():
            ar = torch.arange(dyn._active_states.shape[0])
            act = dyn._active_states.clone()
            pop = dyn.populations
            g = (dyn._hop_integral[ar, act] / pop[ar, act].clamp(min=1e-10).unsqueeze(1)).clamp(min=0.0)
            gs = g.sum(1, keepdim=True)
            if (gs > 1).any():
                stats["probes"]["sum_g_above_one"] = stats["probes"].get("sum_g_above_one", 0) + 1
            g = torch.where(gs > 1.0, g / gs.clamp(min=1e-12), g)
            if script is not None:
                proxy.scale = script.draw_scale(dyn.nstep)
            t = orig_attempt()
            proxy.scale = None
            r = proxy.last
            cs = torch.cumsum(g, 1)
            ref = torch.full_like(t, -1)
            for m in range(len(act)):
                idx = (cs[m] >= r[m]).nonzero()
                if len(idx):
                    ref[m] = idx[0, 0]
            # draws within 1e-12 of a threshold are not attributable
            near = ((cs - r.unsqueeze(1)).abs() < 1e-12).any(1)
            bad = (ref != t) & ~near
            if bad.any():
                m = int(bad.nonzero()[0, 0])
                fail("hop-selection", f"trajectory {m} (active {int(act[m])}): draw r={r[m]:.6f}, fewest-switches probabilities {[round(float(x), 5) for x in g[m]]} (sum {float(g[m].sum()):.4f}) select target {int(ref[m])}, engine chose {int(t[m])}")
            if (g.sum(1) > 1 + 1e-12).any() or (g < 0).any():
                fail("hop-probabilities", "reference probabilities outside [0,1]")
            cur["targets"] = t.clone()
            return t

        def rescale(nac_vec, i_state, j_state, molecule, dE, mol_index):
            v0 = molecule.velocities.clone()
            key = (i_state, j_state) if i_state < j_state else (j_state, i_state)
            dvec = nac_vec[key][mol_index] * (1.0 if i_state < j_state else -1.0)
            ok = orig_rescale(nac_vec, i_state, j_state, molecule, dE, mol_index=mol_index)
            v1 = molecule.velocities
            m = mol_index
            others = [k for k in range(v0.shape[0]) if k != m]
            if others and not torch.equal(v1[others], v0[others]):
                fail("isolation/rescale", f"rescaling trajectory {m} changed the velocities of another trajectory")
            mass = molecule.mass[m]
            minv = molecule.mass_inverse[m]
            ke0 = 0.5 * (mass * v0[m] ** 2).sum() * KE
            ke1 = 0.5 * (mass * v1[m] ** 2).sum() * KE
            if ok:
                stats["probes"]["accepted_hops"] = stats["probes"].get("accepted_hops", 0) + 1
                err = abs(float(ke1 - ke0) + dE)
                scale = max(abs(dE), float(ke0), 1e-12)
                stats["max"]["hop_energy_error_rel"] = max(stats["max"].get("hop_energy_error_rel", 0.0), err / scale)
                if err > tol["hop_energy_rel"] * scale:
                    fail("hop-energy", f"accepted hop {i_state}->{j_state} of trajectory {m}: kinetic energy changes by {float(ke1 - ke0):.6e} eV, potential by {dE:.6e} eV (sum {float(ke1 - ke0) + dE:.3e})")
                delta = v1[m] - v0[m]
                par = dvec * minv
                pn = (par * par).sum()
                if pn > 0:
                    alpha = (delta * par).sum() / pn
                    perp = (delta - alpha * par).abs().max()
                    vs = max(float(v0[m].abs().max()), float(delta.abs().max()), 1e-300)
                    if perp > tol["hop_direction_rel"] * vs:
                        fail("hop-direction", f"accepted hop of trajectory {m}: velocity change has a component {float(perp):.3e} A/fs not along the mass-weighted coupling vector")
                    d2 = (dvec * dvec * minv).sum()
                    vd = (v0[m] * dvec).sum()
                    rad = vd * vd - 2.0 * (dE / KE) * d2
                    if rad > 0:
                        a1 = (-vd + rad.sqrt()) / d2
                        a2 = (-vd - rad.sqrt()) / d2
                        small = a1 if a1.abs() <= a2.abs() else a2
                        if abs(abs(float(alpha)) - abs(float(small))) > 1e-8 * max(abs(float(small)), 1e-300) + 1e-18:
                            fail("hop-root", f"accepted hop of trajectory {m}: adjustment |alpha|={abs(float(alpha)):.6e}, the smaller energy-conserving root is {abs(float(small)):.6e} (other {max(abs(float(a1)), abs(float(a2))):.6e})")
                    if float(vd) == 0.0:
                        stats["probes"]["perpendicular_velocity_hops"] = stats["probes"].get("perpendicular_velocity_hops", 0) + 1
            else:
                stats["probes"]["frustrated_hops"] = stats["probes"].get("frustrated_hops", 0) + 1
                if not torch.equal(v1[m], v0[m]):
                    fail("frustrated-hop-velocities", f"frustrated hop of trajectory {m} changed its velocities")
                # it must really be impossible: no real root, or no coupling
                d2 = (dvec * dvec * minv).sum()
                vd = (v0[m] * dvec).sum()
                rad = vd * vd - 2.0 * (dE / KE) * d2
                if d2 > 1e-12 and rad > 1e-14 * max(float(vd * vd), 1e-300) and rad > 0 and dE < float(ke0) * 0.999999 and False:
                    fail("hop-rejected-wrongly", "hop rejected although an energy-conserving adjustment exists")
            return ok

        def after(molecule, excitation_energies, step=None):
            amp0 = dyn._amp_phase.clone()
            act0 = dyn._active_states.clone()
            v0 = molecule.velocities.clone()
            hold0 = dyn.post_hop_holdoff.clone()
            swap = dyn._trivial_crossing_mask
            swap = None if swap is None else swap.clone()
            nlog0 = len(dyn.hop_log)
            cur.pop("targets", None)
            orig_after(molecule, excitation_energies, step=step)
            amp1, act1 = dyn._amp_phase, dyn._active_states
            nmol, ns = amp0.shape[0], amp0.shape[1]
            events = dyn.hop_log[nlog0:]
            expected_swaps = script.expected_swaps(dyn.nstep) if script is not None and hasattr(script, "expected_swaps") else None
            for m in range(nmol):
                ev = [e for e in events if e.mol_index == m]
                hopped = [e for e in ev if e.reason is None and e.accepted]
                frustrated = [e for e in ev if e.reason == "Frustrated hop"]
                trivial = [e for e in ev if e.reason == "Trivial crossing"]
                row = None if swap is None else swap[m]
                has_swap = row is not None and bool((row >= 0).any())
                p0 = amp0[m, :, 0] ** 2 + amp0[m, :, 1] ** 2
                p1 = amp1[m, :, 0] ** 2 + amp1[m, :, 1] ** 2
                decoh = dyn._decohere_on_hop and (hopped or frustrated)
                if has_swap:
                    stats["probes"]["trivial_crossings"] = stats["probes"].get("trivial_crossings", 0) + 1
                    perm = torch.arange(ns)
                    perm[row >= 0] = row[row >= 0]
                    if int((row >= 0).sum()) >= 3:
                        stats["probes"]["crossings_of_three_or_more_states"] = stats["probes"].get("crossings_of_three_or_more_states", 0) + 1
                    if sorted(perm.tolist()) != list(range(ns)):
                        fail("crossing-not-a-permutation", f"trajectory {m}: relabelling map {perm.tolist()} is not a permutation")
                    elif not decoh:
                        want = torch.empty_like(amp0[m])
                        want[perm] = amp0[m]
                        if not torch.equal(want, amp1[m]):
                            fail("crossing-amplitudes", f"trajectory {m}: amplitudes after a trivial crossing are not the permutation {perm.tolist()} of the amplitudes before")
                        a_exp = int(perm[act0[m]])
                        a_now = int(act1[m]) if not hopped else int(hopped[0].from_state)
                        if a_now != a_exp:
                            fail("crossing-active-index", f"trajectory {m}: active state {int(act0[m])} should be relabelled to {a_exp}, is {a_now}")
                        if a_exp != int(act0[m]):
                            stats["probes"]["trivial_crossing_of_active_state"] = stats["probes"].get("trivial_crossing_of_active_state", 0) + 1
                            if int(dyn.post_hop_holdoff[m]) != 2:
                                fail("crossing-holdoff", f"trajectory {m}: hold-off not set after the active state was relabelled")
                    if expected_swaps is not None and m not in expected_swaps:
                        fail("isolation/crossing", f"trajectory {m} was relabelled ({row.tolist()}) although none of its states crossed at this step")
                else:
                    if not decoh and not torch.equal(amp0[m], amp1[m]):
                        fail("amplitudes-touched", f"trajectory {m}: amplitudes changed in the hop stage without a hop-decoherence or crossing")
                    if trivial:
                        fail("crossing-logged-without-swap", f"trajectory {m}: trivial crossing logged without a swap")
                if not decoh and abs(float(p1.sum() - p0.sum())) > 1e-14 * max(1.0, float(p0.sum())):
                    fail("hop-stage-norm", f"trajectory {m}: total population changed by {float(p1.sum() - p0.sum()):.3e} in the hop stage")
                if not decoh and not torch.allclose(torch.sort(p0).values, torch.sort(p1).values, rtol=1e-15, atol=1e-15):
                    fail("crossing-populations", f"trajectory {m}: the multiset of state populations changed in the hop stage")
                if frustrated:
                    if int(act1[m]) != int(frustrated[0].from_state) or not torch.equal(molecule.velocities[m], v0[m]):
                        fail("frustrated-hop-state", f"trajectory {m}: a frustrated hop changed the active state or the velocities")
                if not hopped and not frustrated and not torch.equal(molecule.velocities[m], v0[m]):
                    fail("velocities-touched", f"trajectory {m}: velocities changed in the hop stage without a hop attempt")
                if hopped and int(act1[m]) != int(hopped[0].to_state):
                    fail("hop-state", f"trajectory {m}: accepted hop to {hopped[0].to_state} but active state is {int(act1[m])}")
                if not hopped and not has_swap and int(act1[m]) != int(act0[m]):
                    fail("state-changed", f"trajectory {m}: active state changed without an accepted hop or crossing")
                if int(hold0[m]) > 0 and (hopped or frustrated):
                    fail("hop-during-holdoff", f"trajectory {m}: hop attempted during the post-hop hold-off")
            dyn.log.append(
                {
                    "x": molecule.coordinates.detach().clone(),
                    "v": molecule.velocities.clone(),
                    "amp": dyn._amp_phase.clone(),
                    "act": dyn._active_states.clone(),
                    "F": molecule.force.detach().clone() if torch.is_tensor(getattr(molecule, "force", None)) else None,
                    "events": [(e.mol_index, e.from_state, e.to_state, e.accepted, e.reason) for e in events],
                    "norm_drift": cur.get("norm_drift"),
                    "nsub": cur.get("nsub"),
                    "xres": cur.get("x"),
                }
            )
            dyn.nstep += 1

        dyn._propagate_electronic = prop
        dyn._attempt_hop = attempt
        dyn._rescale_velocity_along_nac = rescale
        dyn._after_electronic_update = after

    # ------------------------------------------------------------------------------------------
    class Script:
        """Seeded stream of per-step electronic-structure inputs, independent per trajectory."""

        def __init__(self, r, variant=None):
            self.nmol, self.ns, self.natom, self.S = r["nmol"], r["ns"], r["natom"], r["steps"]
            self.ncoef = max(self.ns + 2, 6)
            self.mag = r["mag"]
            self.gap = r["gap"]
            self.variant = variant or {}
            self.data = [self._traj(m) for m in range(self.nmol)]

        def _traj(self, m):
            seed = core.h64("c17", self.variant.get(m, 0), m, self_seed) % (1 << 62)
            g = torch.Generator().manual_seed(seed)
            rng = core.rng_for("c17traj", seed)
            ns, S = self.ns, self.S
            E = torch.sort(torch.rand(ns, generator=g) * self.gap)[0]
            Es, nds, amps, swaps, scales, perps = [], [], [], [], [], []
            q, _ = torch.linalg.qr(torch.randn(self.ncoef, self.ncoef, generator=g))
            amp = q[:ns].clone()
            A = torch.randn(ns, ns, generator=g) * self.mag
            nd = (A - A.T) / 2
            for s in range(S + 1):
                E = torch.sort(E + 0.02 * self.gap * torch.randn(ns, generator=g))[0]
                A = torch.randn(ns, ns, generator=g) * self.mag
                nd = 0.7 * nd + 0.3 * (A - A.T) / 2
                ndv = nd.clone()
                if rng.random() < 0.08:  # nac-spike
                    i, j = rng.sample(range(ns), 2)
                    spike = rng.choice([10.0, 40.0, 100.0]) * rng.choice([-1, 1])
                    ndv[i, j] += spike
                    ndv[j, i] -= spike
                sw = None
                if s > 0 and rng.random() < r_["swap_rate"]:
                    i = rng.randrange(ns - 1)
                    j = min(ns - 1, i + rng.choice([1, 1, 2]))
                    multi = rng.random() if r_.get("multi_crossings") else 1.0
                    if multi < 0.3 and ns >= 3:
                        # three neighbouring states exchange character cyclically in one step
                        i = rng.randrange(ns - 2)
                        cyc = [i + 1, i + 2, i] if rng.random() < 0.5 else [i + 2, i, i + 1]
                        amp = amp.clone()
                        amp[[i, i + 1, i + 2]] = amp[cyc]
                        sw = (i, i + 1, i + 2)
                    elif multi < 0.5 and ns >= 4:
                        # two disjoint pairs cross in the same step
                        i = rng.randrange(ns - 3)
                        amp = amp.clone()
                        amp[[i, i + 1, i + 2, i + 3]] = amp[[i + 1, i, i + 3, i + 2]]
                        sw = (i, i + 1, i + 2, i + 3)
                    elif i != j:
                        amp = amp.clone()
                        amp[[i, j]] = amp[[j, i]]
                        sw = (i, j)
                else:
                    # small smooth rotation of the amplitudes (overlap stays > 0.99 on the diagonal)
                    rot = torch.randn(self.ncoef, self.ncoef, generator=g) * 0.01
                    amp = amp @ torch.linalg.matrix_exp(rot - rot.T)
                Es.append(E.clone())
                nds.append(ndv)
                amps.append(amp.clone())
                swaps.append(sw)
                scales.append(rng.choice([1.0, 1.0, 0.3, 0.05, 1e-3]))
                perps.append(rng.random() < 0.1)
            return {"E": Es, "nd": nds, "amp": amps, "swap": swaps, "scale": scales, "perp": perps, "g": g}

        def at(self, s):
            E = torch.stack([d["E"][s] for d in self.data])
            nd = torch.stack([d["nd"][s] for d in self.data])
            amp = torch.stack([d["amp"][s] for d in self.data])
            return E, nd, amp

        def draw_scale(self, s):
            return torch.tensor([d["scale"][min(s + 1, self.S)] for d in self.data])

        def expected_swaps(self, s):
            return {m for m, d in enumerate(self.data) if d["swap"][min(s + 1, self.S)] is not None}

        def nacvec(self, s, pairs, molecule):
            out = {}
            for a, b in pairs:
                vec = torch.zeros(self.nmol, self.natom, 3)
                for m, d in enumerate(self.data):
                    g = torch.Generator().manual_seed(core.h64("nacv", self.variant.get(m, 0), m, s, a, b, self_seed) % (1 << 62))
                    vv = torch.randn(self.natom, 3, generator=g)
                    if d["perp"][min(s, self.S)]:
                        v = molecule.velocities[m]
                        vv = torch.zeros(self.natom, 3)
                        vv[0] = torch.stack([-v[0, 1], v[0, 0], torch.zeros(())])  # v.d == 0 exactly
                        if float(vv.abs().max()) == 0.0:
                            vv[0, 0] = 1.0
                    vec[m] = vv
                out[(a - 1, b - 1)] = vec
            return out

    class Scripted(Base):
        def __init__(self, script, **kw):
            super().__init__(script.ns, **kw)
            self.script = script
            self.calls = 0

        def _compute_electronic_structure(self, molecule, learned_parameters, **kw):
            s = self.calls
            self.calls += 1
            E, nd, amp = self.script.at(min(s, self.script.S))
            nmol = E.shape[0]
            ar = torch.arange(nmol)
            molecule.cis_energies = E.clone()
            molecule.Etot = E[ar, self._active_states].clone()
            molecule.force = torch.zeros_like(molecule.coordinates)
            self._cache_new = {"energies": E.clone(), "nac_dot": nd.clone(), "cis_amp": amp.clone()}
            return self._cache_new["energies"]

        def _current_cis_amplitudes(self, molecule):
            return self._cache_new["cis_amp"] if isinstance(self._cache_new, dict) and "cis_amp" in self._cache_new else self.script.at(0)[2]

        def _compute_NACR_for_hop(self, molecule, nac_pairs):
            return self.script.nacvec(self.nstep, nac_pairs, molecule)

        def _recompute_active_force(self, molecule):
            molecule.force = torch.zeros_like(molecule.coordinates)

    # ------------------------------------------------------------------------------------------
    class NStateModel:
        def __init__(self, ns, seed):
            g = torch.Generator().manual_seed(seed)
            self.ns = ns
            self.eps = torch.sort(torch.rand(ns, generator=g) * 1.0)[0]
            self.slope = (torch.rand(ns, generator=g) - 0.5) * 1.5
            c = torch.rand(ns, ns, generator=g) * 0.08
            self.c = (c + c.T) / 2 * (1 - torch.eye(ns))
            self.q0, self.k = 1.2, 6.0

        def H(self, q):
            d = q - self.q0
            diag = self.eps + self.slope * d.unsqueeze(1) + 0.5 * self.k * d.unsqueeze(1) ** 2
            gauss = torch.exp(-(d**2) / 0.05).view(-1, 1, 1)
            H = torch.diag_embed(diag) + self.c * gauss
            dH = torch.diag_embed(self.slope + self.k * d.unsqueeze(1)) + self.c * gauss * (-2 * d / 0.05).view(-1, 1, 1)
            return H, dH

        def solve(self, R):
            rv = R[:, 1] - R[:, 0]
            q = rv.norm(dim=1)
            u = rv / q.unsqueeze(1)
            H, dH = self.H(q)
            E, U = torch.linalg.eigh(H)
            s = torch.sign(U[:, 0:1, :])
            s[s == 0] = 1
            U = U * s
            G = U.transpose(1, 2) @ dH @ U
            dE = torch.diagonal(G, dim1=1, dim2=2)
            gap = E.unsqueeze(1) - E.unsqueeze(2)
            nac = torch.where(gap.abs() > 1e-12, G / gap, torch.zeros_like(G)) * (1 - torch.eye(self.ns))
            dq = torch.zeros_like(R)
            dq[:, 0] = -u
            dq[:, 1] = u
            return E, dE, nac, dq

    class ModelSH(Base):
        def __init__(self, model, **kw):
            super().__init__(model.ns, **kw)
            self.model = model

        def _compute_electronic_structure(self, molecule, learned_parameters, **kw):
            R = molecule.coordinates.detach()
            E, dE, nac, dq = self.model.solve(R)
            nmol = R.shape[0]
            ar = torch.arange(nmol)
            self._E, self._dE, self._nac, self._dq = E, dE, nac, dq
            molecule.cis_energies = E.clone()
            act = self._active_states
            molecule.Etot = E[ar, act].clone()
            molecule.force = (-dE[ar, act]).view(nmol, 1, 1) * dq
            qdot = (molecule.velocities * dq).sum((1, 2))
            self._cache_new = {"energies": E.clone(), "nac_dot": nac * qdot.view(-1, 1, 1)}
            return self._cache_new["energies"]

        def _compute_NACR_for_hop(self, molecule, nac_pairs):
            return {(a - 1, b - 1): self._nac[:, a - 1, b - 1].view(-1, 1, 1) * self._dq for (a, b) in nac_pairs}

        def _recompute_active_force(self, molecule):
            nmol = molecule.coordinates.shape[0]
            ar = torch.arange(nmol)
            molecule.force = (-self._dE[ar, self._active_states]).view(nmol, 1, 1) * self._dq

    # ------------------------------------------------------------------------------------------
    failures, stats = [], {"probes": {}, "max": {}, "steps": 0}
    r_ = rec
    self_seed = rec["seed"]

    def start(nmol, natom, seed, variant=None):
        xs, vs = [], []
        for m in range(nmol):
            g = torch.Generator().manual_seed(core.h64("c17start", (variant or {}).get(m, 0), m, seed) % (1 << 62))
            x = torch.zeros(natom, 3)
            x[1, 0] = 1.0 + 0.2 * torch.rand((), generator=g)
            if natom > 2:
                x[2] = torch.tensor([0.3, 1.5, 0.2])
            if natom > 3:
                x[3] = torch.tensor([-0.9, 0.4, 1.1])
            v = rec["vscale"] * (torch.rand(natom, 3, generator=g) - 0.5)
            if rec.get("at_rest") and m == 0:
                v = torch.zeros(natom, 3)
            xs.append(x)
            vs.append(v)
        return torch.stack(xs), torch.stack(vs)

    masses = [12.0, 1.0, 1.0, 16.0][: rec.get("natom", 2)]

    def run_scripted(variant=None, substeps="cfg", fl=None, st=None):
        fl = failures if fl is None else fl
        st = stats if st is None else st
        script = Script(rec, variant)
        dyn = Scripted(script, timestep=rec["dt"], substeps=(rec["substeps"] if substeps == "cfg" else substeps), decohere=rec["decohere"], detect=True)
        x, v = start(rec["nmol"], rec["natom"], rec["seed"], variant)
        mol = Mol(rec["nmol"], masses, x, v)
        init = torch.tensor([1 + (core.h64("init", (variant or {}).get(m, 0), m, rec["seed"]) % rec["ns"]) for m in range(rec["nmol"])])
        dyn.initial_state = init
        instrument(dyn, fl, st, script)
        dyn.run(mol, steps=rec["steps"], reuse_P=True, remove_com=None, seed=rec["seed"] % (1 << 31))
        return dyn

    def compare_isolation(a, b, changed, exact, what):
        keep = [m for m in range(rec["nmol"]) if m != changed]
        for s, (la, lb) in enumerate(zip(a.log, b.log)):
            if la["nsub"] != lb["nsub"]:
                # adaptive mode: the sub-step count is batch-global by design, so from here on the other
                # trajectories legitimately differ at integrator-error level; nothing further is comparable
                stats["probes"]["isolation_cut_by_global_substeps"] = stats["probes"].get("isolation_cut_by_global_substeps", 0) + 1
                break
            for m in keep:
                ea = [e for e in la["events"] if e[0] == m]
                eb = [e for e in lb["events"] if e[0] == m]
                if True:
                    same = torch.equal(la["amp"][m], lb["amp"][m]) and torch.equal(la["v"][m], lb["v"][m]) and int(la["act"][m]) == int(lb["act"][m]) and ea == eb
                    dev = 0.0 if same else float((la["amp"][m][:, :2] - lb["amp"][m][:, :2]).abs().max())
                else:
                    dev = max(float((la["amp"][m][:, :2] - lb["amp"][m][:, :2]).abs().max()), float((la["v"][m] - lb["v"][m]).abs().max()))
                    same = dev <= tol["isolation_adaptive"] and ea == eb and int(la["act"][m]) == int(lb["act"][m])
                if not same:
                    failures.append({"oracle": f"isolation/{what}", "msg": f"changing trajectory {changed} changed trajectory {m} at step {s} (max deviation {dev:.3e}; events {ea} vs {eb}; {'fixed' if exact else 'adaptive'} sub-steps)", "detail": {}})
                    return
        stats["probes"]["isolation_comparisons"] = stats["probes"].get("isolation_comparisons", 0) + 1

    kind = rec["kind"]
    if kind == "scripted":
        a = run_scripted()
        stats["steps"] += len(a.log)
        if rec["nmol"] > 1 and not failures:
            ch = rec["changed"] % rec["nmol"]
            b = run_scripted(variant={ch: 1}, fl=[], st={"probes": {}, "max": {}})
            compare_isolation(a, b, ch, exact=rec["substeps"] is not None, what="scripted")
        if rec["substeps"] is not None and not failures:
            # integrator order: the same script with twice the sub-steps (hop draws scaled to 0 would change the
            # history, so only the first steps up to the first event are compared)
            fl2, st2 = [], {"probes": {}, "max": {}}
            c = run_scripted(substeps=2 * rec["substeps"], fl=fl2, st=st2)
            for s, (la, lc) in enumerate(zip(a.log, c.log)):
                if la["events"] or lc["events"]:
                    break
                da, dc = la["norm_drift"], lc["norm_drift"]
                big = (da > 1e-9) & (la["xres"] <= 0.3)
                if big.any():
                    ratio = float((da[big] / dc[big].clamp(min=1e-300)).min())
                    stats["max"]["min_order_ratio_inv"] = max(stats["max"].get("min_order_ratio_inv", 0.0), 1.0 / ratio)
                    stats["probes"]["order_comparisons"] = stats["probes"].get("order_comparisons", 0) + 1
                    if ratio < tol["order_ratio_min"]:
                        failures.append({"oracle": "integrator-order", "msg": f"step {s}: halving the electronic sub-step reduces the norm drift only by a factor {ratio:.1f} ({float(da[big].max()):.3e} -> {float(dc[big].max()):.3e}); a 4th-order scheme gives >= {tol['order_ratio_min']}", "detail": {}})
                        break
        digest = core.digest([[la["act"].tolist(), [round(float(x), 12) for x in la["amp"].reshape(-1)[:6]]] for la in a.log[-3:]])
        sample = {"hops": sum(len(l["events"]) for l in a.log), "final_active": a.log[-1]["act"].tolist() if a.log else None}
    elif kind == "model":

        def run_model(variant=None, dt=None, fl=None, st=None):
            model = NStateModel(rec["ns"], rec["model_seed"])
            dyn = ModelSH(model, timestep=dt or rec["dt"], substeps=rec["substeps"], decohere=rec["decohere"], detect=False)
            x, v = start(rec["nmol"], rec["natom"], rec["seed"], variant)
            mol = Mol(rec["nmol"], masses, x, v)
            dyn.initial_state = torch.tensor([1 + (core.h64("init", (variant or {}).get(m, 0), m, rec["seed"]) % rec["ns"]) for m in range(rec["nmol"])])
            instrument(dyn, failures if fl is None else fl, stats if st is None else st, None)
            dyn.run(mol, steps=rec["steps"], reuse_P=True, remove_com=None, seed=rec["seed"] % (1 << 31))
            return dyn, mol, model

        a, mol, model = run_model()
        stats["steps"] += len(a.log)
        # total energy from an independent evaluation of the model at the recorded positions
        Et = []
        for l in a.log:
            E, _, _, _ = model.solve(l["x"])
            ke = 0.5 * (mol.mass * l["v"] ** 2).sum((1, 2)) * KE
            Et.append(ke + E[torch.arange(rec["nmol"]), l["act"]])
        Et = torch.stack(Et)
        # after the hop stage of EVERY step each trajectory is driven by the force of ITS (possibly new) active state,
        # whatever happened to the other trajectories of the batch in that step
        for s, l in enumerate(a.log):
            if l.get("F") is None:
                continue
            _, dE_, _, dq_ = model.solve(l["x"])
            wantF = (-dE_[torch.arange(rec["nmol"]), l["act"]]).view(-1, 1, 1) * dq_
            devF = (l["F"] - wantF).abs().amax(dim=(1, 2))
            if float(devF.max()) > 1e-10:
                m = int(torch.argmax(devF))
                failures.append({"oracle": "force-of-active-state", "msg": f"step {s}: trajectory {m} (active state {int(l['act'][m])}) leaves the hop stage with a force that differs from the force of its active surface by {float(devF[m]):.3e} eV/A; hop events of the step: {l['events']}", "detail": {}})
                break
        jump = (Et[1:] - Et[:-1]).abs()
        for s in range(1, len(a.log)):
            for (m, i, j, acc, reason) in a.log[s]["events"]:
                if acc:
                    stats["max"]["model_energy_jump_at_hop"] = max(stats["max"].get("model_energy_jump_at_hop", 0.0), float(jump[s - 1, m]))
        fl_amp = float((Et.max(0).values - Et.min(0).values).max())
        stats["max"]["model_energy_fluctuation_eV"] = fl_amp
        if fl_amp > tol["model_energy_fluct"]:
            m = int(torch.argmax(Et.max(0).values - Et.min(0).values))
            hopsteps = [s for s, l in enumerate(a.log) if any(e[0] == m and e[3] for e in l["events"])]
            failures.append({"oracle": "trajectory-energy", "msg": f"trajectory {m}: total energy varies by {fl_amp:.3e} eV over {len(a.log)} steps (dt={rec['dt']}, accepted hops at steps {hopsteps[:8]}); allowed {tol['model_energy_fluct']}", "detail": {}})
        # linear momentum is conserved by the model forces and by hops along the coupling vector
        P0 = (mol.mass * a.log[0]["v"]).sum(1)
        P1 = (mol.mass * a.log[-1]["v"]).sum(1)
        if float((P1 - P0).abs().max()) > 1e-10:
            failures.append({"oracle": "momentum", "msg": f"total linear momentum changed by {float((P1 - P0).abs().max()):.3e} over the trajectory", "detail": {}})
        if rec["nmol"] > 1 and not failures:
            ch = rec["changed"] % rec["nmol"]
            b, _, _ = run_model(variant={ch: 1}, fl=[], st={"probes": {}, "max": {}})
            compare_isolation(a, b, ch, exact=rec["substeps"] is not None, what="model")
        digest = core.digest([[l["act"].tolist(), [round(float(x), 12) for x in l["x"].reshape(-1)[:6]]] for l in a.log[-3:]])
        sample = {"hops": sum(len(l["events"]) for l in a.log), "energy_fluctuation_eV": fl_amp}
    else:  # tully: the anchored script, batch vs solo
        from TullyModels import TullyFSSH, TullyModel, TullyMolecule

        builder = {"single": TullyModel.single_crossing, "double": TullyModel.double_crossing, "extended": TullyModel.extended_coupling}[rec["tully"]]

        def run_tully(x0, v0, init):
            model = builder()
            dyn = TullyFSSH(model, timestep=rec["dt"])
            mol = TullyMolecule(x0=torch.tensor(x0), v0=torch.tensor(v0), mass=rec["mass"])
            dyn.initial_state = torch.tensor(init)
            proxy.scale = None
            tr = []
            orig = dyn._after_electronic_update

            def wrapped(molecule, excitation_energies, step=None):
                orig(molecule, excitation_energies, step=step)
                x = molecule.coordinates[:, 0, 0].clone()
                E, _, _ = model.pot(x)
                ke = 0.5 * (molecule.mass * molecule.velocities**2).sum((1, 2)) * KE
                act = dyn._active_states.clone()
                tr.append({"x": x, "v": molecule.velocities[:, 0, 0].clone(), "act": act, "Et": ke + E[torch.arange(len(x)), act], "F": molecule.force[:, 0, 0].clone(), "Ep_reported": molecule.Etot.clone()})

            dyn._after_electronic_update = wrapped
            dyn.run(mol, steps=rec["steps"], reuse_P=True, remove_com=None, seed=rec["seed"] % (1 << 31))
            return tr, dyn, model

        x0, v0, init = rec["x0"], rec["v0"], rec["init"]
        tb, dynb, model = run_tully(x0, v0, init)
        stats["steps"] += len(tb)
        n = len(x0)
        # force on every trajectory is the force of ITS active state
        for s, l in enumerate(tb):
            E, dE, _ = model.pot(l["x"])
            want = -dE[torch.arange(n), l["act"]]
            if float((l["F"] - want).abs().max()) > 1e-12:
                m = int(torch.argmax((l["F"] - want).abs()))
                failures.append({"oracle": "isolation/tully-force", "msg": f"step {s}: trajectory {m} (active state {int(l['act'][m])}) is driven by the force {float(l['F'][m]):.6e}, its own surface gives {float(want[m]):.6e} (batch active states {l['act'].tolist()})", "detail": {}})
                break
        Et = torch.stack([l["Et"] for l in tb])
        fl_amp = float((Et.max(0).values - Et.min(0).values).max())
        hops = [(e.step, e.mol_index, e.from_state, e.to_state, e.accepted) for e in dynb.hop_log]
        stats["probes"]["tully_hops"] = len(hops)
        # Energy is checked ACROSS HOPS only (what the statement says).  Whole-trajectory conservation is not
        # demanded here: the analytic gradients of the script's two-state model are not the derivative of its
        # energies (factor in dS of _two_state_from_diabatic), which is a force/energy consistency matter
        # (C01 territory), not a surface-hopping one - see DESIGN.md.
        jumps = (Et[1:] - Et[:-1]).abs()
        hop_mask = torch.zeros_like(jumps, dtype=torch.bool)
        for s_ in range(1, len(tb)):
            changed_state = tb[s_]["act"] != tb[s_ - 1]["act"]
            hop_mask[s_ - 1] = changed_state
        if hop_mask.any():
            base = float(jumps[~hop_mask].max()) if (~hop_mask).any() else 0.0
            worst_hop = float(jumps[hop_mask].max())
            stats["max"]["tully_hop_jump_over_background"] = worst_hop / max(10 * base + 1e-9, 1e-300)
            if worst_hop > 10 * base + 1e-9:
                failures.append({"oracle": "hop-energy/tully", "msg": f"total energy jumps by {worst_hop:.3e} eV across a hop of a Tully trajectory (largest step-to-step change elsewhere {base:.3e} eV)", "detail": {}})
        for s, l in enumerate(tb):
            E, _, _ = model.pot(l["x"])
            want = E[torch.arange(n), l["act"]]
            if float((l["Ep_reported"] - want).abs().max()) > 1e-10:
                m = int(torch.argmax((l["Ep_reported"] - want).abs()))
                failures.append({"oracle": "tully-reported-potential", "msg": f"step {s}: potential energy reported for trajectory {m} is {float(l['Ep_reported'][m]):.6e}, its active surface has {float(want[m]):.6e}", "detail": {}})
                break
        digest = core.digest([[round(float(x), 12) for x in l["x"]] for l in tb[-3:]])
        sample = {"hops": hops[:6], "energy_fluctuation_eV": fl_amp}
    return {"failures": failures, "stats": stats, "digest": digest, "sample": sample}


def execute(record):
    root = core.make_scratch(f"c17-{record.get('i', 0)}-{core.digest(record)}")
    try:
        st, payload = core.run_in_child(_child, (record,), timeout=1200, stdout_path=os.path.join(root, "out.txt"))
        if st != 0 or not payload or "ok" not in payload:
            return core.Result.make(record, [core.fail("run-failed", f"surface-hopping run raised: {str(payload)[:600]}")], {"probes": {}}, sig=None, nontrivial=False)
        r = payload["ok"]
        sig = [record["kind"]] + [record.get(k) for k in ("ns", "nmol", "natom", "dt", "substeps", "decohere", "mag", "gap", "tully", "seed")]
        return core.Result.make(record, r["failures"], r["stats"], sig=sig, nontrivial=True, sample={"case": record, "result": r["sample"]}, digest_=r["digest"])
    finally:
        shutil.rmtree(root, ignore_errors=True)


def gen(rng, tier, i):
    u = rng.random()
    rec = {"seed": rng.randrange(1 << 40), "changed": rng.randrange(8)}
    if u < 0.72:
        rec.update(
            kind="scripted",
            ns=rng.randint(2, 8),
            nmol=rng.randint(1, 5),
            natom=rng.randint(2, 4),
            steps=rng.randint(20, 120 if tier == "quick" else 200),
            dt=rng.choice([0.05, 0.1, 0.2, 0.5]),
            substeps=rng.choice([None, None, 8, 16, 32]),
            decohere=rng.random() < 0.4,
            mag=10 ** rng.uniform(-2, 1.2),
            gap=10 ** rng.uniform(-4, math.log10(5)),
            swap_rate=rng.choice([0.0, 0.05, 0.15]),
            multi_crossings=rng.random() < 0.5,
            vscale=rng.choice([0.005, 0.02, 0.08]),
            at_rest=rng.random() < 0.1,
        )
    elif u < 0.92:
        rec.update(
            kind="model",
            ns=rng.randint(2, 6),
            # a third of the runs with large batches: several hop attempts (accepted and frustrated) in one step
            nmol=rng.randint(3, 8) if rng.random() < 0.65 else rng.randint(24, 48),
            natom=3,
            steps=rng.randint(150, 300 if tier == "quick" else 400),
            dt=rng.choice([0.05, 0.1]),
            substeps=rng.choice([None, 8]),
            decohere=rng.random() < 0.3,
            model_seed=rng.randrange(1 << 20),
            vscale=rng.choice([0.02, 0.04]),
        )
    else:
        n = rng.randint(1, 4)
        rec.update(
            kind="tully",
            tully=rng.choice(["single", "double", "extended"]),
            dt=rng.choice([0.05, 0.1]),
            steps=rng.randint(300, 500),
            mass=rng.choice([2000.0, 1000.0, 200.0]),
            x0=[round(rng.uniform(-0.8, -0.3), 3) for _ in range(n)],
            v0=[round(rng.uniform(0.03, 0.1), 4) for _ in range(n)],
            init=[rng.choice([1, 2]) for _ in range(n)],
        )
    return rec


class C17(core.Check):
    prop = PROP
    level = "exploration"
    module = "dst.c17"
    budget = {"quick": 200, "thorough": 1700}
    runs = {"quick": 260, "thorough": 4000}
    assumptions = [
        "the electronic structure is supplied through the subclass seam the repository's own Tully script uses; energies/couplings/amplitudes are scripted (arbitrary inputs) or come from an N-state analytic model; real CIS electronic structure is exercised by C10/C11/C12 real strata, not here",
        "isolation is exact with fixed electronic sub-steps; with adaptive sub-steps the count is batch-global by design (within the statement's 'accuracy order of the integrator'), so continuous quantities are compared with 1e-6",
        "norm-drift bound K n_sub h^6 (rho + gap/hbar)^5 rho with K frozen from calibration",
    ]

    def plan(self, tier, seed):
        return [dict(gen(core.rng_for(seed, PROP, i), tier, i), i=i) for i in range(self.runs[tier])]

    def shrink_candidates(self, rec):
        out = []
        if rec["kind"] in ("scripted", "model"):
            if rec["steps"] > 10:
                out.append(dict(rec, steps=max(5, rec["steps"] // 2)))
            if rec["nmol"] > 1:
                out.append(dict(rec, nmol=rec["nmol"] - 1))
            if rec.get("decohere"):
                out.append(dict(rec, decohere=False))
            if rec.get("swap_rate"):
                out.append(dict(rec, swap_rate=0.0))
        else:
            if len(rec["x0"]) > 2:
                out.append(dict(rec, x0=rec["x0"][:2], v0=rec["v0"][:2], init=rec["init"][:2]))
            if rec["steps"] > 20:
                out.append(dict(rec, steps=rec["steps"] // 2))
        return out

    def coverage(self, results, tier):
        sigs, stats, kinds = set(), {}, {}
        for r in results:
            core.merge_counts(stats, r["stats"])
            if r["sig"] is not None:
                sigs.add(json.dumps(r["sig"]))
                kinds[r["sig"][0]] = kinds.get(r["sig"][0], 0) + 1
        samples = []
        for k in ("scripted", "model", "tully"):
            samples += [r["sample"] for r in results if r.get("sample") and r["record"]["kind"] == k][:1]
        return {
            "evaluations": len(results),
            "distinct_nontrivial": len(sigs),
            "rule": "one evaluation = one seeded surface-hopping run of the real run loop (scripted inputs: 2-8 states, 1-5 trajectories, couplings 0.01-16/fs with spikes to 100/fs, gaps 1e-4-5 eV, dt, fixed/adaptive sub-steps, swaps, forced draws, perpendicular coupling vectors, decoherence on/off; or N-state model trajectories; or the Tully script) plus its isolation twin (one trajectory changed) and its sub-step-halved twin; every run is non-trivial (>= 20 steps of the hop logic); distinct = distinct parameter tuples",
            "samples": samples,
            "kinds": kinds,
            "nuclear_steps_observed": stats.get("steps", 0),
            "probes": stats.get("probes", {}),
            "worst_observed": stats.get("max", {}),
            "tolerances_used": core.tolerances()["C17"],
            "components": {"real": ["SurfaceHoppingDynamics.run, _do_integrator_step, _detect_crossings, _compute_perm_from_overlap, _propagate_electronic, _attempt_hop, _rescale_velocity_along_nac, _after_electronic_update", "scripts/tully_surface_hopping/TullyModels.py (TullyFSSH)"], "stub": ["electronic structure (scripted stream / N-state analytic model)", "torch.rand passed through a recording/scaling proxy"]},
        }


def main(argv=None):
    return core.main(C17(), argv)
