"""CLI: /venv/bin/python -m dst <Cxx|selftest> [--tier quick|thorough] [--replay file]"""
import importlib
import os
import sys

CHECKS = {
    "C03": "dst.c03",
    "C04": "dst.c04",
    "C08": "dst.c08",
    "C09": "dst.c09",
    "C10": "dst.c10",
    "C11": "dst.c11",
    "C12": "dst.c12",
    "C13": "dst.c13",
    "C15": "dst.c15",
    "C16": "dst.c16",
    "C17": "dst.c17",
    "C20": "dst.c20",
    "selftest": "dst.selftest",
}


def main():
    if len(sys.argv) < 2 or sys.argv[1] not in CHECKS:
        print("usage: python -m dst <" + "|".join(CHECKS) + "> [--tier quick|thorough] [--replay path]")
        return 2
    # one fixed hash seed for every interpreter of the simulation (determinism self-test varies it on purpose)
    if os.environ.get("PYTHONHASHSEED") is None:
        env = dict(os.environ)
        env["PYTHONHASHSEED"] = "0"
        os.execve(sys.executable, [sys.executable, "-m", "dst"] + sys.argv[1:], env)
    os.environ.setdefault("OMP_NUM_THREADS", "1")
    os.environ.setdefault("MKL_NUM_THREADS", "1")
    name = sys.argv[1]
    mod = importlib.import_module(CHECKS[name])
    return mod.main(sys.argv[2:])


if __name__ == "__main__":
    sys.exit(main())
