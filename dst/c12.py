"""C12 - the Langevin thermostat samples the canonical ensemble at the target temperature.

The randomness seam turns the statistical statement into an exact one: a recording proxy for
torch.randn_like captures the noise of every thermostat application, a wrapper captures the
velocities before and after, and the update is compared with an independent evaluation of
v' = c1 v + c2 xi,  c1 = exp(-dt/2tau),  c2 = sqrt((1-c1^2) kB T / m).
Layers: (1) exact per-application update + schedule (two half-step applications around the
force evaluation of every step), (2) invariance identity on the engine's own tensors, (3) limits
(tau = inf reproduces NVE bit for bit; tau -> inf deviation ~ tau^-1/2; T = 0 only removes energy),
(4) deliberately coarse end-to-end mean kinetic temperature on exactly solvable stub systems.
"""
import json
import math
import os
import shutil

import numpy as np

from . import core, mdsim

PROP = "C12"
KB_EV = 8.617333262e-5
AMU = 1.66053906660e-27
EV = 1.602176634e-19
KB_AMU_A2_FS2 = KB_EV * EV / AMU * 1e-10  # (amu A^2 / fs^2) / K
KE_SCALE = AMU * 1.0e10 / EV


def hook(cfg, tshim, mode):
    import torch

    import seqm.MolecularDynamics as MDm

    rec = {"apps": [], "c1": None, "c2": None, "mass": None, "temps": [], "ncalls": [0], "dof": None, "runs": []}
    draws = []
    # every Gaussian source of the torch namespace is recorded (the oracle must not depend on WHICH function
    # the implementation uses to draw its normal deviates)
    tshim.recorder = lambda kind, r: (draws.append(r.clone()) if kind in ("randn_like", "randn", "normal") else None) or r
    L = MDm.Molecular_Dynamics_Langevin
    orig = L._apply_langevin_thermostat
    stat = cfg.get("stat")

    def wrapped(self, molecule):
        n0 = len(draws)
        v0 = molecule.velocities.clone()
        orig(self, molecule)
        v1 = molecule.velocities
        if stat:
            # noise inferred from the update itself: xi = (v1 - c1 v0) / c2 on real atoms (exact for the documented update)
            c2 = self.langevin_c2
            ok = (c2 > 0).expand_as(v1)
            if ok.any():
                xi = ((v1 - self.langevin_c1 * v0) / torch.where(c2 > 0, c2, torch.ones_like(c2)))[ok]
                m = rec.setdefault("xi", {"n": 0, "s1": 0.0, "s2": 0.0, "s4": 0.0, "tail2": 0})
                m["n"] += int(xi.numel())
                m["s1"] += float(xi.sum())
                m["s2"] += float((xi**2).sum())
                m["s4"] += float((xi**4).sum())
                m["tail2"] += int((xi.abs() > 2.0).sum())
            return
        xi = draws[-1] if len(draws) == n0 + 1 else None
        if not rec["runs"] or rec["runs"][-1]["id"] != id(molecule):
            rec["runs"].append({"id": id(molecule), "mass": molecule.mass.tolist(), "c1": float(self.langevin_c1), "c2": self.langevin_c2.tolist(), "first_app": len(rec["apps"])})
        rec["apps"].append(
            {
                "run": len(rec["runs"]) - 1,
                "calls": rec["ncalls"][0],
                "ndraws": len(draws) - n0,
                "x": molecule.coordinates.detach().clone().tolist(),
                "v0": v0.tolist(),
                "v1": v1.clone().tolist(),
                "xi": xi.tolist() if xi is not None else None,
            }
        )
        if rec["c1"] is None:
            rec["c1"] = float(self.langevin_c1)
            rec["c2"] = self.langevin_c2.tolist()
            rec["mass"] = molecule.mass.tolist()

    L._apply_langevin_thermostat = wrapped
    if mode == "resume":
        # the driver object is built inside run_from_checkpoint: count force evaluations through a global module hook
        from torch.nn.modules.module import register_module_forward_hook

        register_module_forward_hook(lambda m, a, o: rec["ncalls"].__setitem__(0, rec["ncalls"][0] + 1) if isinstance(m, MDm.esdriver) else None)

    def on_md(md, mol):
        md.esdriver.register_forward_hook(lambda m, a, o: rec["ncalls"].__setitem__(0, rec["ncalls"][0] + 1))
        if stat:
            acc = {"n": 0, "sum": torch.zeros(mol.species.shape[0]), "sum2": torch.zeros(mol.species.shape[0])}
            rec["acc"] = acc
            skip = int(stat["skip"])
            for cls in (MDm.Molecular_Dynamics_Basic, MDm.XL_BOMD):
                o = cls.__dict__["_do_integrator_step"]

                def make(o):
                    def step(self, i, molecule, *a, **kw):
                        r = o(self, i, molecule, *a, **kw)
                        if i >= skip:
                            ke = 0.5 * (molecule.mass * molecule.velocities**2).sum((1, 2)) * KE_SCALE
                            t = 2.0 * ke / (3.0 * molecule.num_atoms * KB_EV)
                            acc["n"] += 1
                            acc["sum"] += t
                            acc["sum2"] += t * t
                        return r

                    return step

                setattr(cls, "_do_integrator_step", make(o))

    def report():
        out = {k: v for k, v in rec.items() if k not in ("acc", "ncalls")}
        out["xi_moments"] = rec.get("xi")
        if "acc" in rec:
            a = rec["acc"]
            out["stat"] = {"n": a["n"], "mean": (a["sum"] / max(a["n"], 1)).tolist(), "mean2": (a["sum2"] / max(a["n"], 1)).tolist()}
        return out

    return {"on_md": on_md, "report": report}


BATCHES = [["h2o"], ["h2o", "h2"], ["ch4", "h2o", "hf"], ["hcl", "h2s"], ["lih", "sih4"], ["nh3", "h2co"], ["c2h4", "hf"]]


def gen(rng, tier):
    u = rng.random()
    if u < 0.06:
        return gen_stat(rng)
    if u < 0.16:
        return gen_limit(rng)
    eng = rng.choice(["langevin", "langevin", "xl_damp", "ksa_damp", "langevin", "langevin", "xl_damp", "ksa_damp", "xl_esmd", "sh_model"])
    real = rng.random() < 0.03 and eng not in ("xl_esmd", "sh_model")
    cfg = {"engine": "ksa" if eng == "ksa_damp" else eng, "driver": "real" if real else "stub", "kind": "exact"}
    if real and rng.random() < 0.3:
        cfg.update(engine="sh", batch=["h2co"], n_states=2, steps=2, rotate=rng.randrange(1 << 30), scf_eps=1e-8)
    elif real:
        cfg.update(batch=rng.choice([["h2o"], ["h2o", "hf"]]), rotate=rng.randrange(1 << 30), scf_eps=1e-8, steps=rng.randint(2, 4))
    else:
        cfg.update(batch=rng.choice(BATCHES), steps=rng.randint(2, 8), stub={"pot": rng.choice(["harm", "morse", "zero"]), "gamma": 0.3})
        if rng.random() < 0.3:
            cfg["extra_pad"] = 1
    if eng == "xl_esmd":
        cfg.update(n_states=2, active_state=rng.randint(1, 2))
    if eng == "sh_model":
        cfg.update(batch=rng.choice([["h2o"], ["h2o", "h2o"], ["nh3", "h2o"]]), n_states=rng.randint(2, 4), model_seed=rng.randrange(1 << 20), substeps=8)
        cfg["initial_state"] = [rng.randint(1, cfg["n_states"]) for _ in cfg["batch"]]
        cfg.pop("extra_pad", None)
    cfg["dt"] = 0.2 if cfg["engine"] in ("sh", "sh_model") else rng.choice([0.05, 0.1, 0.25, 0.5, 1.0])
    ratio = 10 ** rng.uniform(-4, 1)  # dt / damp
    damp = cfg["dt"] / ratio
    cfg["damp"] = damp
    if eng == "ksa_damp":
        cfg["ksa_damp"] = damp
    cfg["temp"] = rng.choice([0.0, 10.0, 77.0, 300.0, 300.0, 1200.0, 2000.0])
    cfg["seed"] = rng.randrange(1 << 20)
    if cfg["engine"] in ("xl_damp", "ksa", "xl_esmd"):
        cfg["k"] = rng.randint(3, 9)
    cfg["out"] = {"molid": [0], "print": 0, "ckpt": 0, "xyz": 0, "h5": {"data": 0, "coordinates": 0, "velocities": 0, "forces": 0}}
    cfg["reuse_P"] = True
    cfg["remove_com"] = None
    if cfg["driver"] == "stub" and cfg["steps"] >= 3 and rng.random() < 0.2:
        cfg["resume_after"] = rng.randint(1, cfg["steps"] - 1)
    elif cfg["driver"] == "stub" and rng.random() < 0.25:
        # the same driver object first runs another batch of the same shape (other elements in the slots)
        shape = sorted(len(mdsim.POOL[m][0]) for m in cfg["batch"])
        same = [b for b in BATCHES + SAME_SHAPE if sorted(len(mdsim.POOL[m][0]) for m in b) == shape and b != cfg["batch"]]
        if same:
            pre = rng.choice(same)
            # keep the slot order of sizes identical so that (nmol, molsize) and the padding pattern may differ only in elements
            cfg["pre_run"] = {"batch": pre, "steps": 2}
    return cfg


SAME_SHAPE = [["h2s"], ["hcl", "hf"], ["hf", "h2"], ["sih4", "hcl"], ["nh3"], ["h2co"], ["h2o", "hcl"], ["h2s", "h2"]]


def gen_limit(rng):
    cfg = {"engine": "langevin", "driver": "stub", "kind": "limit", "batch": rng.choice(BATCHES), "steps": rng.randint(6, 20)}
    cfg["stub"] = {"pot": rng.choice(["harm", "morse"]), "gamma": 0.3}
    cfg["dt"] = rng.choice([0.25, 0.5])
    cfg["temp"] = rng.choice([100.0, 300.0, 900.0])
    cfg["seed"] = rng.randrange(1 << 20)
    cfg["damp"] = float("inf")
    nm = len(cfg["batch"])
    cfg["out"] = {"molid": list(range(nm)), "print": 0, "ckpt": 0, "xyz": 0, "h5": {"data": 1, "coordinates": 1, "velocities": 1, "forces": 0}}
    cfg["reuse_P"] = True
    cfg["remove_com"] = None
    return cfg


def gen_stat(rng):
    pot = rng.choice(["zero", "harm"])
    cfg = {"engine": rng.choice(["langevin", "langevin", "xl_damp"]), "driver": "stub", "kind": "stat", "batch": ["ch4", "ch4", "nh3", "h2o"]}
    cfg["stub"] = {"pot": pot, "k": 4.0, "r0": 1.3, "gamma": 0.3}
    cfg["dt"] = 0.25
    cfg["damp"] = rng.choice([0.25, 0.5, 1.0]) if pot == "zero" else rng.choice([1.0, 2.0])
    cfg["steps"] = 2400 if pot == "zero" else 4000
    cfg["temp"] = rng.choice([150.0, 300.0, 600.0])
    cfg["seed"] = rng.randrange(1 << 20)
    if cfg["engine"] == "xl_damp":
        cfg["k"] = rng.randint(3, 9)
    cfg["stat"] = {"skip": 200}
    cfg["out"] = {"molid": [0], "print": 0, "ckpt": 0, "xyz": 0, "h5": {"data": 0, "coordinates": 0, "velocities": 0, "forces": 0}}
    cfg["reuse_P"] = True
    cfg["remove_com"] = None
    if rng.random() < 0.5:
        # thermostat + periodic centre-of-mass removal (a documented combination): the removal preserves the kinetic
        # energy, so the long-run mean kinetic temperature (under the thermostat's 3N count) stays on target
        cfg["remove_com"] = [rng.choice(["linear", "angular"]), rng.choice([1, 1, 3])]
    return cfg


def execute(record):
    root = core.make_scratch(f"c12-{record.get('i', 0)}-{core.digest(record)}")
    try:
        kind = record["cfg"]["kind"]
        return {"exact": _exact, "limit": _limit, "stat": _stat}[kind](record, root)
    finally:
        shutil.rmtree(root, ignore_errors=True)


def _run(cfg, root, name, hooked=True):
    d = os.path.join(root, name)
    os.makedirs(d)
    opts = {"io_seam": False, "rng_seam": hooked}
    if hooked:
        opts["child_hook"] = "dst.c12:hook"
    r = mdsim.run_incarnation(cfg, d, 0, None, "fresh", opts, timeout=900)
    return d, r


def _run_resumed(cfg, root, name, after):
    """The same run, interrupted at the entry of step after+1 and resumed from the checkpoint of step `after`:
    returns the report of the RESUMED incarnation (every thermostat application from there on is observed)."""
    d = os.path.join(root, name)
    os.makedirs(d)
    c = json.loads(json.dumps(cfg))
    c["out"]["ckpt"] = 1
    opts = {"io_seam": False, "rng_seam": True, "child_hook": "dst.c12:hook"}
    r0 = mdsim.run_incarnation(c, d, 0, {"kind": "soft", "clock": "step", "step": after + 1, "off": 0}, "fresh", opts, timeout=900)
    if r0["status"] != 3 or (r0.get("exc") or {}).get("type") != "InjectedCrash":
        return d, r0
    return d, mdsim.run_incarnation(c, d, 1, None, "resume", opts, timeout=900)


def _exact(record, root):
    tol = core.tolerances()["C12"]
    cfg = record["cfg"]
    failures, stats = [], {"probes": {}, "applications": 0, "max": {}}
    ra = int(cfg.get("resume_after") or 0)
    if ra:
        # the thermostat of a RESUMED run: same identity, same schedule, over the remaining steps
        d, r = _run_resumed(cfg, root, "A", ra)
        cfg = dict(cfg, steps=cfg["steps"] - ra)
        stats["probes"]["resumed_runs"] = 1
    else:
        d, r = _run(cfg, root, "A")
    if r["status"] == 0 and ra and not (r["report"]["hook"].get("apps")):
        failures.append(core.fail("schedule", f"no thermostat application at all in the {cfg['steps']} steps after the resume ({cfg['engine']}, damp={cfg['damp']:.4g} fs): the resumed run is not thermostatted"))
        return core.Result.make(record, failures, stats, sig=None, nontrivial=False)
    if r["status"] != 0:
        failures.append(core.fail("run-failed", f"valid Langevin configuration raised {(r.get('exc') or {})}"))
        return core.Result.make(record, failures, stats, sig=None, nontrivial=False)
    rep = r["report"]["hook"]
    dt, damp, T = cfg["dt"], cfg["damp"], cfg["temp"]
    c1 = math.exp(-dt / (2.0 * damp))
    if cfg.get("pre_run"):
        stats["probes"]["reused_driver_runs"] = 1
    last = rep["runs"][-1] if rep["runs"] else None
    if last is not None:
        rep["apps"] = [a for a in rep["apps"] if a["run"] == len(rep["runs"]) - 1]
        rep["mass"], rep["c1"], rep["c2"] = last["mass"], last["c1"], last["c2"]
    mass = np.array(rep["mass"])  # (nmol, n, 1)
    inv = np.where(mass > 0, 1.0 / np.where(mass > 0, mass, 1.0), 0.0)
    c2 = np.sqrt((1.0 - c1 * c1) * KB_AMU_A2_FS2 * T * inv)
    apps = rep["apps"]
    S = cfg["steps"]
    # schedule: two applications per step, one before and one after that step's force evaluation
    init_calls = apps[0]["calls"] if apps else 0
    want = []
    for s in range(S):
        want += [init_calls + s, init_calls + s + 1]
    have = [a["calls"] for a in apps]
    if cfg["engine"] not in ("sh", "sh_model") and have != want:
        failures.append(core.fail("schedule", f"thermostat applications relative to force evaluations: {have[:10]}, expected two half-step applications per step around the force evaluation {want[:10]}"))
    if cfg["engine"] in ("sh", "sh_model") and len(have) != 2 * S:
        failures.append(core.fail("schedule", f"{len(have)} thermostat applications in {S} steps, expected {2 * S}"))
    if cfg["engine"] not in ("sh", "sh_model"):
        # documented positions: O(dt/2) . kick . drift . force . kick . O(dt/2); nothing touches the velocities
        # or positions between the closing application of one step and the opening one of the next
        for s_ in range(1, S):
            if 2 * s_ >= len(apps):
                break
            a_prev, a_open = apps[2 * s_ - 1], apps[2 * s_]
            if a_open["v0"] != a_prev["v1"] or a_open["x"] != a_prev["x"]:
                failures.append(core.fail("schedule", f"step {s_ + 1}: the opening half-step thermostat does not act on the velocities/positions the previous step ended with (it is not the first operation of the step)"))
                break
        for s_ in range(S):
            if 2 * s_ + 1 < len(apps) and T > 0 and apps[2 * s_]["x"] == apps[2 * s_ + 1]["x"]:
                failures.append(core.fail("schedule", f"step {s_ + 1}: no drift between the two thermostat applications"))
                break
    worst = 0.0
    for a in apps:
        stats["applications"] += 1
        if a["ndraws"] != 1 or a["xi"] is None:
            # the noise of this application could not be attributed to exactly one recorded Gaussian draw: the exact
            # oracle does not apply (counted; a batch dominated by such applications is vacuous, not violating)
            stats["unattributed"] = stats.get("unattributed", 0) + 1
            continue
        v0, v1, xi = np.array(a["v0"]), np.array(a["v1"]), np.array(a["xi"])
        pred = c1 * v0 + c2 * xi
        scale = max(np.abs(v1).max(), np.abs(pred).max(), 1e-300)
        dev = np.abs(pred - v1).max() / scale
        worst = max(worst, dev)
        if dev > tol["update_rel"]:
            failures.append(
                core.fail(
                    "fluctuation-dissipation",
                    f"velocity update deviates {dev:.3e} (relative) from c1 v + c2 xi with c1=exp(-dt/2tau), c2=sqrt((1-c1^2) kB T/m); dt={dt} tau={damp:.4g} T={T}",
                )
            )
            break
        pad = (mass[..., 0] == 0)
        if pad.any() and np.abs(v1[pad]).max() > 0:
            failures.append(core.fail("padding-noise", "padding atoms received thermostat noise"))
            break
        if T == 0.0:
            ke0 = (mass * v0 * v0).sum()
            ke1 = (mass * v1 * v1).sum()
            if ke1 > ke0 * (1 + 1e-15):
                failures.append(core.fail("zero-temperature-heats", f"T=0 thermostat application increased the kinetic energy ({ke0} -> {ke1})"))
                break
    stats["max"]["update_rel_dev"] = worst
    # invariance identity on the tensors the engine built
    if rep["c1"] is not None and T > 0:
        ec1 = rep["c1"]
        ec2 = np.array(rep["c2"])
        real = mass > 0
        ident = ec1 * ec1 + (ec2 * ec2)[real] * mass[real] / (KB_AMU_A2_FS2 * T)
        dev = np.abs(ident - 1.0).max()
        stats["max"]["invariance_identity_dev"] = float(dev)
        if dev > tol["identity"]:
            failures.append(core.fail("invariance-identity", f"c1^2 + c2^2 m/(kB T) = 1 violated by {dev:.3e} (Maxwell-Boltzmann not invariant); dt/tau={dt / damp:.3g}"))
    ratio = dt / damp
    sig = [cfg["engine"], cfg["driver"], round(math.log10(ratio)), cfg["temp"], cfg["batch"], cfg.get("extra_pad", 0), cfg["dt"]]
    if cfg.get("extra_pad") or len({len(mdsim.POOL[m][0]) for m in cfg["batch"]}) > 1:
        stats["probes"]["padded"] = 1
    stats["probes"][f"log10_dt_over_tau={round(math.log10(ratio))}"] = 1
    stats["sim_time_fs"] = S * dt
    sample = {"cfg": cfg, "applications": len(apps), "c1": c1, "worst_rel_dev": worst}
    return core.Result.make(record, failures, stats, sig=sig, nontrivial=len(apps) > 0, sample=sample, digest_=core.digest([a["v1"] for a in apps]))


def _limit(record, root):
    tol = core.tolerances()["C12"]
    cfg = record["cfg"]
    failures, stats = [], {"probes": {"limit_runs": 1}, "max": {}}
    nve = dict(cfg, engine="basic")
    nve.pop("damp")
    dN, rN = _run(nve, root, "nve", hooked=False)
    dI, rI = _run(cfg, root, "inf", hooked=False)
    if rN["status"] != 0 or rI["status"] != 0:
        failures.append(core.fail("run-failed", f"infinite damping time run raised {(rI.get('exc') or rN.get('exc'))}"))
        return core.Result.make(record, failures, stats, sig=None, nontrivial=False)
    N, _ = mdsim.dump_files(dN, nve)
    I, _ = mdsim.dump_files(dI, cfg)
    bad = [b for b in mdsim.compare(N, I)]
    if bad:
        failures.append(core.fail("infinite-damping-limit", f"damp=inf does not reproduce the NVE trajectory of the same seed: {bad[:3]}"))
    devs = []
    for tau in (1e6, 1e8, 1e10):
        c = dict(cfg, damp=tau)
        dT, rT = _run(c, root, f"tau{tau:g}", hooked=False)
        if rT["status"] != 0:
            failures.append(core.fail("run-failed", f"damp={tau} raised {rT.get('exc')}"))
            return core.Result.make(record, failures, stats, sig=None, nontrivial=False)
        Tt, _ = mdsim.dump_files(dT, c)
        dev = max(np.abs(Tt[k] - N[k]).max() for k in N if k.endswith("velocities/values"))
        devs.append(dev)
    r1, r2 = devs[0] / max(devs[1], 1e-300), devs[1] / max(devs[2], 1e-300)
    stats["max"]["limit_ratio_dev"] = max(abs(r1 - 10), abs(r2 - 10))
    if not (tol["limit_ratio"][0] <= r1 <= tol["limit_ratio"][1] and tol["limit_ratio"][0] <= r2 <= tol["limit_ratio"][1]):
        failures.append(core.fail("large-damping-scaling", f"deviation from NVE for tau=1e6,1e8,1e10: {devs}; ratios {r1:.3f}, {r2:.3f}, expected 10 (amplitude ~ tau^-1/2)"))
    sig = ["limit", cfg["batch"], cfg["temp"], cfg["dt"], cfg["steps"]]
    stats["sim_time_fs"] = cfg["steps"] * cfg["dt"] * 5
    return core.Result.make(record, failures, stats, sig=sig, nontrivial=True, sample={"cfg": dict(cfg, damp="inf"), "deviation_vs_tau": devs}, digest_=mdsim.files_digest(I))


def _stat(record, root):
    tol = core.tolerances()["C12"]
    cfg = record["cfg"]
    failures, stats = [], {"probes": {"statistical_runs": 1}, "max": {}}
    d, r = _run(cfg, root, "S")
    if r["status"] != 0:
        failures.append(core.fail("run-failed", f"raised {r.get('exc')}"))
        return core.Result.make(record, failures, stats, sig=None, nontrivial=False)
    st = r["report"]["hook"]["stat"]
    sp, _ = mdsim.build_batch(cfg)
    nat = (sp > 0).sum(1)
    n = st["n"]
    c1sq = math.exp(-cfg["dt"] / cfg["damp"])
    # effective sample count per degree of freedom from the known velocity autocorrelation c1^2 per step
    # (harmonic case: use the same bound, it is the slower of the two decays for these parameters)
    g = (1 + c1sq * c1sq) / (1 - c1sq * c1sq)  # integrated autocorrelation of v^2 for an O-U process
    if cfg["stub"]["pot"] != "zero":
        g *= 4.0  # bound systems: energy exchange with the potential lengthens the correlation; be conservative
    ndof_tot = 3.0 * float(nat.sum())
    neff = n * ndof_tot / g
    sigma = math.sqrt(2.0 / neff)
    mean_all = float(sum(m * 3 * a for m, a in zip(st["mean"], nat)) / ndof_tot)
    rel = abs(mean_all - cfg["temp"]) / cfg["temp"]
    bound = max(tol["stat_rel"], 6.0 * sigma)
    stats["max"]["stat_rel_over_bound"] = rel / bound
    if rel > bound:
        failures.append(
            core.fail(
                "stationary-temperature",
                f"mean kinetic temperature {mean_all:.2f} K over {n} steps x {int(ndof_tot)} dof, target {cfg['temp']} K: deviation {rel:.3%} > max(3%, 6 sigma = {6 * sigma:.3%}); pot={cfg['stub']['pot']} dt/tau={cfg['dt'] / cfg['damp']:.3g} remove_com={cfg.get('remove_com')}",
            )
        )
    xm = r["report"]["hook"].get("xi_moments")
    if xm and xm["n"] > 1000:
        nn = xm["n"]
        mean = xm["s1"] / nn
        var = xm["s2"] / nn - mean * mean
        kurt = (xm["s4"] / nn) / max(xm["s2"] / nn, 1e-300) ** 2
        tail = xm["tail2"] / nn
        z = {
            "mean": abs(mean) * math.sqrt(nn),
            "variance": abs(var - 1.0) / math.sqrt(2.0 / nn),
            "kurtosis": abs(kurt - 3.0) / math.sqrt(96.0 / nn),
            "tail": abs(tail - 0.0455002638964) / math.sqrt(0.0455 * 0.9545 / nn),
        }
        stats["max"]["noise_moment_z"] = max(z.values())
        stats["probes"]["noise_samples_tested"] = nn
        for name, zz in z.items():
            if zz > tol["noise_z"]:
                failures.append(core.fail("noise-not-gaussian", f"the thermostat noise inferred from {nn} velocity updates is not standard normal: {name} deviates by {zz:.1f} sigma (mean {mean:.4f}, variance {var:.4f}, kurtosis {kurt:.4f}, P(|xi|>2) {tail:.4%}); a Maxwell-Boltzmann distribution is not left invariant"))
                break
    if cfg.get("remove_com"):
        stats["probes"]["statistical_runs_with_com_removal"] = 1
    sig = ["stat", cfg["engine"], cfg["stub"]["pot"], cfg["damp"], cfg["temp"], cfg.get("remove_com")]
    stats["sim_time_fs"] = cfg["steps"] * cfg["dt"]
    return core.Result.make(record, failures, stats, sig=sig, nontrivial=True, sample={"cfg": cfg, "mean_T": mean_all, "n_steps": n, "sigma_rel": sigma}, digest_=core.digest(st))


class C12(core.Check):
    prop = PROP
    level = "exploration"
    module = "dst.c12"
    budget = {"quick": 170, "thorough": 1700}
    runs = {"quick": 420, "thorough": 7000}
    assumptions = [
        "the noise of every application is captured by a recording proxy for torch.randn_like in the module namespace (the simulator owns the random stream), so the update is checked exactly rather than statistically",
        "independent CODATA-2018 constants; the repository's slightly older constants differ at the 1e-8 level, tolerance 1e-6",
        "the end-to-end temperature layer is deliberately coarse (max(3%, 6 sigma)); layers 1-2 decide the fluctuation-dissipation identity",
    ]

    def vacuous(self, results):
        stats = {}
        for r in results:
            core.merge_counts(stats, r["stats"])
        un, ap = stats.get("unattributed", 0), stats.get("applications", 0)
        if ap and un > 0.2 * ap and not any(r["failures"] for r in results):
            return f"the noise of {un} of {ap} thermostat applications could not be attributed to a recorded Gaussian draw (exact layer not exercised)"
        return None

    def plan(self, tier, seed):
        return [{"i": i, "cfg": gen(core.rng_for(seed, PROP, i), tier)} for i in range(self.runs[tier])]

    def shrink_candidates(self, rec):
        cfg = rec["cfg"]
        out = []
        cp = lambda: json.loads(json.dumps(cfg))
        if cfg["kind"] != "exact":
            if cfg["steps"] > 400:
                c = cp()
                c["steps"] = cfg["steps"] // 2
                out.append({"i": rec["i"], "cfg": c})
            return out
        if cfg["damp"] == float("inf"):
            return out
        if len(cfg["batch"]) > 1:
            c = cp()
            c["batch"] = cfg["batch"][:1]
            out.append({"i": rec["i"], "cfg": c})
        if cfg["steps"] > 1:
            c = cp()
            c["steps"] = 1
            out.append({"i": rec["i"], "cfg": c})
        if cfg.get("extra_pad"):
            c = cp()
            c.pop("extra_pad")
            out.append({"i": rec["i"], "cfg": c})
        if cfg["engine"] != "langevin" and cfg["driver"] == "stub":
            c = cp()
            c["engine"] = "langevin"
            out.append({"i": rec["i"], "cfg": c})
        return out

    def coverage(self, results, tier):
        sigs, stats, kinds = set(), {}, {}
        for r in results:
            core.merge_counts(stats, r["stats"])
            if r["sig"] is not None and r["nontrivial"]:
                sigs.add(json.dumps(r["sig"]))
            k = r["record"]["cfg"]["kind"] + "/" + r["record"]["cfg"]["engine"] + "/" + r["record"]["cfg"]["driver"]
            kinds[k] = kinds.get(k, 0) + 1
        samples = []
        for kind in ("exact", "limit", "stat"):
            samples += [r["sample"] for r in results if r.get("sample") and r["record"]["cfg"]["kind"] == kind][:1]
        return {
            "evaluations": len(results),
            "distinct_nontrivial": len(sigs),
            "rule": "one evaluation = one seeded configuration (engine, batch incl. padding and masses H..Cl, dt, dt/tau in 1e-4..10, T in 0..2000 K) run with every thermostat application captured (exact layer), or a family tau=inf,1e6,1e8,1e10 vs NVE (limit layer), or a long run on an exactly solvable stub (statistical layer); non-trivial = at least one application observed; distinct = distinct (engine, driver, decade of dt/tau, T, batch, padding, dt)",
            "samples": samples,
            "thermostat_applications_checked_exactly": stats.get("applications", 0),
            "strata": kinds,
            "probes": stats.get("probes", {}),
            "worst_observed": stats.get("max", {}),
            "tolerances_used": core.tolerances()["C12"],
            "simulated_time_fs": stats.get("sim_time_fs", 0),
            "components": {"real": ["_apply_langevin_thermostat, Langevin/XL-BOMD/KSA/surface-hopping one_step, initialize (c1, c2 tensors), torch RNG"], "stub": ["electronic structure in the stub stratum", "torch.randn_like is passed through a recording proxy"]},
        }


def main(argv=None):
    return core.main(C12(), argv)
