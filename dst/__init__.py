"""Deterministic simulation with fault injection for lanl/PYSEQM (see /verif/DESIGN.md)."""
