"""Import PYSEQM from the current working tree (VERIF_REPO or /repo) with a pinned environment."""
import os
import sys
import warnings

REPO = os.path.realpath(os.environ.get("VERIF_REPO", "/repo"))
_loaded = False


class _PinnedMem:
    """psutil.virtual_memory() seam: the Davidson solver sizes its subspace from `available`."""

    available = 8 * 1024**3
    total = 16 * 1024**3


class PsutilShim:
    def __init__(self, real):
        self._real = real
        self.mem = _PinnedMem()

    def __getattr__(self, k):
        return getattr(self._real, k)

    def virtual_memory(self):
        return self.mem


def load():
    """Import torch + seqm from REPO; single compute thread; float64; memory probe pinned."""
    global _loaded
    if _loaded:
        return
    warnings.filterwarnings("ignore", category=SyntaxWarning)
    if REPO in sys.path:
        sys.path.remove(REPO)
    sys.path.insert(0, REPO)
    scripts = os.path.join(REPO, "scripts", "tully_surface_hopping")
    if scripts not in sys.path:
        sys.path.insert(1, scripts)
    import torch

    torch.set_num_threads(1)
    torch.set_default_dtype(torch.float64)
    import seqm

    got = os.path.realpath(seqm.__file__)
    if not got.startswith(REPO + os.sep):
        raise RuntimeError(f"seqm imported from {got}, expected under {REPO}")
    import seqm.seqm_functions.rcis_batch as rb

    if hasattr(rb, "psutil") and not isinstance(rb.psutil, PsutilShim):
        rb.psutil = PsutilShim(rb.psutil)
    _loaded = True


def set_available_memory(nbytes):
    import seqm.seqm_functions.rcis_batch as rb

    rb.psutil.mem.available = int(nbytes)
