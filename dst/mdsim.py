"""mdsim: the MD engines of PYSEQM as a simulated system.

A *run* is a configuration (JSON-able dict) plus a list of faults, one per process incarnation.
Every incarnation executes in a fork()ed child of the pristine worker: incarnation 0 calls
md.run(), later ones call run_from_checkpoint() on whatever the previous one left on disk.
"""
import hashlib
import json
import math
import os
import shutil

import numpy as np

from . import core

# --------------------------------------------------------------------------------------------
# molecule pool (Angstrom; species sorted non-increasing as the library requires)

POOL = {
    "h2": ([1, 1], [[0.0, 0.0, 0.0], [0.74, 0.0, 0.0]]),
    "hf": ([9, 1], [[0.0, 0.0, 0.0], [0.917, 0.0, 0.0]]),
    "h2o": ([8, 1, 1], [[0.0, 0.0, 0.0], [0.9584, 0.0, 0.0], [-0.2400, 0.9279, 0.0]]),
    "nh3": (
        [7, 1, 1, 1],
        [[0.0, 0.0, 0.1173], [0.0, 0.9377, -0.2737], [0.8121, -0.4689, -0.2737], [-0.8121, -0.4689, -0.2737]],
    ),
    "ch4": (
        [6, 1, 1, 1, 1],
        [
            [0.0, 0.0, 0.0],
            [0.6291, 0.6291, 0.6291],
            [-0.6291, -0.6291, 0.6291],
            [-0.6291, 0.6291, -0.6291],
            [0.6291, -0.6291, -0.6291],
        ],
    ),
    "h2co": ([8, 6, 1, 1], [[0.0, 0.0, 1.2050], [0.0, 0.0, 0.0], [0.9429, 0.0, -0.5876], [-0.9429, 0.0, -0.5876]]),
    "hcn": ([7, 6, 1], [[0.0, 0.0, 1.156], [0.0, 0.0, 0.0], [0.0, 0.0, -1.064]]),
    "hcl": ([17, 1], [[0.0, 0.0, 0.0], [1.275, 0.0, 0.0]]),
    "h2s": ([16, 1, 1], [[0.0, 0.0, 0.0], [1.336, 0.0, 0.0], [-0.0466, 1.3352, 0.0]]),
    "lih": ([3, 1], [[0.0, 0.0, 0.0], [1.595, 0.0, 0.0]]),
    "sih4": ([14, 1, 1, 1, 1], [[0.0, 0.0, 0.0], [0.8544, 0.8544, 0.8544], [-0.8544, -0.8544, 0.8544], [-0.8544, 0.8544, -0.8544], [0.8544, -0.8544, -0.8544]]),
    "c2h4": (
        [6, 6, 1, 1, 1, 1],
        [
            [0.0, 0.0, 0.6695],
            [0.0, 0.0, -0.6695],
            [0.0, 0.9289, 1.2321],
            [0.0, -0.9289, 1.2321],
            [0.0, 0.9289, -1.2321],
            [0.0, -0.9289, -1.2321],
        ],
    ),
}


# formaldehyde with a hydrogen molecule 3.2 A away (two fragments: their dispersion energy changes along a trajectory)
POOL["h2co_h2"] = ([8, 6, 1, 1, 1, 1], [[0.0, 0.0, 1.2050], [0.0, 0.0, 0.0], [0.9429, 0.0, -0.5876], [-0.9429, 0.0, -0.5876], [0.1, 3.2, 0.1], [0.1, 3.94, 0.2]])


def same_shape_batch(batch, rng):
    """Another batch with the same atom count in every slot but other elements (driver-reuse strata)."""
    by_size = {}
    for name, (z, _) in POOL.items():
        if name in ("o1", "h1") or sum(z) % 2:
            continue  # single atoms; species that are not closed shell when neutral (ions/radicals of the C10 strata)
        by_size.setdefault(len(z), []).append(name)
    out = []
    for m in batch:
        cands = [c for c in sorted(by_size[len(POOL[m][0])]) if POOL[c][0] != POOL[m][0]]
        out.append(rng.choice(cands) if cands else m)
    return out


def rotation_matrix(seed):
    """Seeded random proper rotation (keeps real-driver geometries off the axis-aligned cone)."""
    if seed is None:
        return np.eye(3)
    rng = core.rng_for("rot", seed)
    q = np.array([rng.gauss(0, 1) for _ in range(4)])
    q /= np.linalg.norm(q)
    a, b, c, d = q
    return np.array(
        [
            [a * a + b * b - c * c - d * d, 2 * (b * c - a * d), 2 * (b * d + a * c)],
            [2 * (b * c + a * d), a * a - b * b + c * c - d * d, 2 * (c * d - a * b)],
            [2 * (b * d - a * c), 2 * (c * d + a * b), a * a - b * b - c * c + d * d],
        ]
    )


def build_batch(cfg):
    """-> (species int64 (nmol,n), coordinates float64 (nmol,n,3)) as numpy arrays."""
    names = cfg["batch"]
    n = max(len(POOL[m][0]) for m in names)
    n += int(cfg.get("extra_pad", 0))
    sp = np.zeros((len(names), n), dtype=np.int64)
    xyz = np.zeros((len(names), n, 3))
    rng = core.rng_for("geom", cfg.get("geom_seed", 0))
    for i, m in enumerate(names):
        z, r = POOL[m]
        r = np.array(r, dtype=float)
        disp = cfg.get("distort", 0.0)
        if disp:
            r = r + np.array([[rng.uniform(-disp, disp) for _ in range(3)] for _ in range(len(z))])
        sad = cfg.get("saddle")
        if sad and int(sad["member"]) == i and len(z) == 3:
            # a triatomic placed next to the collinear stationary point of the stub's all-pairs potential (end atoms
            # at +-x, central atom displaced sideways by eps): its force starts tiny, grows while it leaves the
            # saddle and only then relaxes
            r = np.array([[0.0, float(sad["eps"]), 0.0], [-float(sad["x"]), 0.0, 0.0], [float(sad["x"]), 0.0, 0.0]])
        rot = rotation_matrix(None if cfg.get("rotate") is None else (cfg["rotate"], i))
        r = r @ rot.T
        sp[i, : len(z)] = z
        xyz[i, : len(z)] = r
        if cfg.get("pad_coords"):
            for a in range(len(z), n):
                xyz[i, a] = [rng.uniform(-3, 3) for _ in range(3)]
    if cfg.get("only") is not None:
        # the same molecule (same distortion and orientation) taken out of its batch
        m = int(cfg["only"])
        nat = int((sp[m] > 0).sum())
        sp, xyz = sp[m : m + 1, :nat].copy(), xyz[m : m + 1, :nat].copy()
    return sp, xyz


POOL.setdefault("oh", ([8, 1], [[0.0, 0.0, 0.0], [0.97, 0.0, 0.0]]))
POOL.setdefault("nh4", ([7, 1, 1, 1, 1], [[0.0, 0.0, 0.0], [0.59, 0.59, 0.59], [-0.59, -0.59, 0.59], [-0.59, 0.59, -0.59], [0.59, -0.59, -0.59]]))
POOL.setdefault("ch3", ([6, 1, 1, 1], [[0.0, 0.0, 0.0], [1.079, 0.0, 0.0], [-0.5395, 0.9344, 0.0], [-0.5395, -0.9344, 0.0]]))
ENGINES = ("basic", "langevin", "xl", "xl_damp", "ksa", "exc_basic", "exc_xl", "xl_esmd", "sh")
STUB_OK = ("basic", "langevin", "xl", "xl_damp", "ksa", "sh_model", "exc_basic", "exc_xl", "xl_esmd")
EXC_ENGINES = ("exc_basic", "exc_xl", "xl_esmd")


def seqm_parameters(cfg):
    sp = {"method": cfg.get("method", "AM1"), "scf_eps": cfg.get("scf_eps", 1.0e-8), "scf_converger": list(cfg.get("scf_converger", [1]))}
    if cfg["driver"] == "stub":
        sp["_stub"] = dict(cfg.get("stub", {}))
    if cfg.get("uhf"):
        sp["UHF"] = True
    if cfg.get("dispersion"):
        sp["dispersion"] = True  # AM1-FS1 pairwise dispersion correction (AM1 only)
    eng = cfg["engine"]
    if eng in EXC_ENGINES:
        sp["excited_states"] = {"n_states": cfg.get("n_states", 3), "method": "cis"}
        sp["active_state"] = cfg.get("active_state", 1)
    if eng == "sh":
        sp["excited_states"] = {"n_states": cfg.get("n_states", 2), "method": "cis"}
        if cfg.get("nonadiabatic"):
            sp["nonadiabatic"] = dict(cfg["nonadiabatic"])
    if eng == "sh_model":
        # surface hopping on the N-state analytic model (dst/shmodel.py); parameters survive the checkpoint
        sp["_shmodel"] = {"ns": cfg.get("n_states", 3), "seed": cfg.get("model_seed", 1), "substeps": cfg.get("substeps")}
        sp["excited_states"] = {"n_states": cfg.get("n_states", 3), "method": "cis"}
        sp["nonadiabatic"] = {"compute_nac": True, "detect_crossings": False, "decohere_on_hop": bool(cfg.get("decohere", False))}
    return sp


def output_dict(cfg, prefix):
    o = cfg["out"]
    h5 = {k: int(v) for k, v in o["h5"].items()}
    if cfg.get("legacy_keys"):
        # the backward-compatible spelling: 'thermo' = screen cadence, 'dump' = XYZ and HDF5 data cadence
        le = cfg.get("legacy_explicit")
        if le:
            # ... next to explicit values for both streams (which win, whatever 'dump' says)
            return {"molid": list(o["molid"]), "prefix": prefix, "thermo": int(o.get("print", 0)), "dump": int(le["dump"]), "xyz": int(o.get("xyz", 0)), "checkpoint every": int(o.get("ckpt", 0)), "h5": h5}
        assert int(o.get("xyz", 0)) == int(h5.get("data", 0))
        h5.pop("data", None)
        return {"molid": list(o["molid"]), "prefix": prefix, "thermo": int(o.get("print", 0)), "dump": int(o.get("xyz", 0)), "checkpoint every": int(o.get("ckpt", 0)), "h5": h5}
    out = {
        "molid": list(o["molid"]),
        "prefix": prefix,
        "print every": int(o.get("print", 0)),
        "checkpoint every": int(o.get("ckpt", 0)),
        "xyz": int(o.get("xyz", 0)),
        "h5": h5,
    }
    if cfg.get("sparse_h5_keys"):
        out["h5"] = {k: v for k, v in h5.items() if v}
    if cfg.get("numpy_cadences"):
        out["h5"] = {k: (np.int64(v) if k in ("data", "coordinates", "velocities", "forces", "nonadiabatic", "transition_density_matrices") else v) for k, v in h5.items()}
        out["xyz"], out["print every"], out["checkpoint every"] = np.int64(out["xyz"]), np.int64(out["print every"]), np.int64(out["checkpoint every"])
    if cfg.get("omit_h5") and not any(h5.values()):
        out.pop("h5")
    return out


def make_md(cfg, prefix, params=None, md=None):
    """Build (molecule, md, run_kwargs) for a fresh run. Executed in the child only.

    With `params`/`md` given, only a new molecule is built and the existing driver object is reused."""
    import torch

    import seqm.MolecularDynamics as MDm
    import seqm.NonadiabaticDynamics as NDm
    from seqm.Molecule import Molecule
    from seqm.seqm_functions.constants import Constants

    sp_np, xyz_np = build_batch(cfg)
    if cfg.get("init") is not None:
        # explicit phase-space point (time-reversal families): real-atom rows only
        for m, x in enumerate(cfg["init"]["coords"]):
            xyz_np[m, : len(x)] = np.array(x)
    species = torch.as_tensor(sp_np, dtype=torch.int64)
    coords = torch.as_tensor(xyz_np, dtype=torch.float64)
    if params is None:
        params = seqm_parameters(cfg)  # the SAME dict object goes to Molecule and to the driver
    mkw = {}
    if cfg.get("charges") is not None:
        mkw["charges"] = torch.as_tensor(cfg["charges"])
    if cfg.get("mult") is not None:
        mkw["mult"] = torch.as_tensor(cfg["mult"])
    mol = Molecule(Constants(), params, coords, species, **mkw)
    out = output_dict(cfg, prefix)
    eng = cfg["engine"]
    common = dict(seqm_parameters=params, timestep=cfg["dt"], Temp=cfg["temp"], output=out)
    if md is not None:
        pass
    elif eng in ("basic", "exc_basic"):
        md = MDm.Molecular_Dynamics_Basic(**common)
    elif eng == "langevin":
        md = MDm.Molecular_Dynamics_Langevin(damp=cfg["damp"], **common)
    elif eng == "xl_esmd":
        md = MDm.XL_ESMD(damp=cfg.get("damp"), xl_bomd_params={"k": cfg["k"]}, **common)
    elif eng in ("xl", "xl_damp", "exc_xl"):
        md = MDm.XL_BOMD(damp=(cfg["damp"] if eng == "xl_damp" else None), xl_bomd_params=dict({"k": cfg["k"]}, **cfg.get("xl_extra", {})), **common)
    elif eng == "ksa":
        xp = {"k": cfg["k"], "max_rank": cfg.get("max_rank", 2), "err_threshold": 0.0, "T_el": cfg.get("T_el", 1500)}
        md = MDm.KSA_XL_BOMD(damp=cfg.get("ksa_damp"), xl_bomd_params=xp, **common)
    elif eng in ("sh", "sh_model"):
        init = cfg.get("initial_state", 1)
        if isinstance(init, list):
            init = torch.tensor(init)
        md = NDm.SurfaceHoppingDynamics(initial_state=init, damp=cfg.get("damp"), **common)
    else:
        raise ValueError(eng)
    init = cfg.get("init")
    if init is not None:
        vel = torch.zeros_like(mol.coordinates)
        for m, v in enumerate(init["vel"]):
            vel[m, : len(v)] = torch.as_tensor(v, dtype=torch.float64)
        mol.velocities = vel.detach()
    uv = cfg.get("user_vel")
    if uv is not None:
        rng = core.rng_for("uservel", uv["seed"])
        v = np.array([[[rng.gauss(0, uv.get("scale", 0.01)) for _ in range(3)] for _ in range(sp_np.shape[1])] for _ in range(sp_np.shape[0])])
        v = v * (sp_np > 0)[..., None]
        mol.velocities = torch.as_tensor(v, dtype=torch.float64)
    rc = cfg.get("remove_com")
    kw = dict(steps=cfg["steps"], reuse_P=bool(cfg.get("reuse_P", True)), remove_com=(tuple(rc) if rc else None), seed=cfg.get("seed"))
    return mol, md, kw


# --------------------------------------------------------------------------------------------
# one incarnation (executed inside the child)


def _child_incarnation(cfg, workdir, inc, fault, mode, opts):
    import torch

    from . import iosim, stub

    import seqm.MolecularDynamics as MDm
    import seqm.NonadiabaticDynamics as NDm

    torch.set_num_threads(1)
    torch.set_default_dtype(torch.float64)
    if cfg["driver"] == "stub":
        MDm.esdriver = stub.StubES
    if cfg["engine"] == "sh_model":
        from . import shmodel

        NDm.SurfaceHoppingDynamics = shmodel.SurfaceHoppingDynamics
    prefix = os.path.join(workdir, "t")
    iosim.Sim.reset(os.path.join(workdir, f"events.{inc}.log"), fault=fault, xyzbuf=cfg.get("xyzbuf"))
    tshim = iosim.install(io_seam=opts.get("io_seam", True), line_clock=opts.get("line_clock", False), rng_seam=opts.get("rng_seam", False))
    hook = opts.get("child_hook")
    ctx = {}
    if hook:
        import importlib

        m, f = hook.rsplit(":", 1)
        ctx = getattr(importlib.import_module(m), f)(cfg, tshim, mode) or {}
    k = int(cfg.get("rng_prefix", 0))
    if mode == "fresh":
        if k:
            torch.manual_seed(cfg.get("rng_prefix_seed", 1))
            torch.randn(k)
            np.random.seed(k)
            np.random.rand(k)
        pre = cfg.get("pre_run")
        if pre:
            # the same driver object first runs another molecule/batch (driver-reuse stratum)
            pcfg = {k: v for k, v in cfg.items() if k != "pre_run"}
            pcfg.update(batch=pre["batch"], steps=pre["steps"])
            pmol, md, pkw = make_md(pcfg, prefix + "-pre")
            if ctx.get("on_md"):
                ctx["on_md"](md, pmol)
            md.run(pmol, **pkw)
            md.output_config.prefix = prefix
            mol, _, kw = make_md(cfg, prefix, params=md.seqm_parameters, md=md)
        else:
            mol, md, kw = make_md(cfg, prefix)
            if ctx.get("on_md"):
                ctx["on_md"](md, mol)
        md.run(mol, **kw)
    else:
        path = prefix + ".restart.pt"
        if cfg["engine"] in ("sh", "sh_model"):
            NDm.SurfaceHoppingDynamics.run_from_checkpoint(path)
        else:
            MDm.Molecular_Dynamics_Basic.run_from_checkpoint(path)
    import sys

    sys.settrace(None)
    rep = {"io": iosim.Sim.n, "lines": iosim.Sim.lines, "counts": iosim.Sim.counts, "first_replace_n": iosim.Sim.first_replace_n, "fired": iosim.Sim.fired}
    if ctx.get("report"):
        rep["hook"] = ctx["report"]()
    return rep


def run_incarnation(cfg, workdir, inc, fault=None, mode="fresh", opts=None, timeout=600):
    """-> dict(status, report|exc, fired)"""
    opts = opts or {}
    status, payload = core.run_in_child(
        _child_incarnation,
        (cfg, workdir, inc, fault, mode, opts),
        timeout=timeout,
        stdout_path=os.path.join(workdir, f"stdout.{inc}.txt"),
    )
    if status == "timeout":
        raise core.HarnessError(f"incarnation {inc} exceeded the {timeout}s wall-clock watchdog: {json.dumps(cfg)[:300]}")
    out = {"status": status, "inc": inc, "mode": mode, "fault": fault}
    if payload and "ok" in payload:
        out["report"] = payload["ok"]
    elif payload:
        out["exc"] = {"type": payload.get("exc"), "msg": payload.get("msg"), "tb": payload.get("tb")}
    return out


# --------------------------------------------------------------------------------------------
# reading back what a run left on disk


def dump_files(workdir, cfg):
    """-> (data dict name->ndarray / list, problems list).  Unreadable content is a problem, not an exception."""
    import h5py

    prefix = os.path.join(workdir, "t")
    data, problems = {}, []
    for m in cfg["out"]["molid"]:
        p = f"{prefix}.{m}.h5"
        if os.path.exists(p):
            try:
                with h5py.File(p, "r") as f:
                    names = []
                    f.visititems(lambda n, o: names.append(n) if isinstance(o, h5py.Dataset) else None)
                    for n in sorted(names):
                        try:
                            data[f"{m}:h5:{n}"] = f[n][...]
                        except Exception as e:  # noqa: BLE001
                            problems.append({"file": f"t.{m}.h5", "dataset": n, "error": f"{type(e).__name__}: {str(e)[:120]}"})
                    data[f"{m}:h5attr:timestep_fs"] = np.array(f.attrs.get("timestep_fs", np.nan))
            except Exception as e:  # noqa: BLE001
                problems.append({"file": f"t.{m}.h5", "dataset": None, "error": f"{type(e).__name__}: {str(e)[:120]}"})
        p = f"{prefix}.{m}.xyz"
        if os.path.exists(p):
            raw = open(p, "rb").read()
            data[f"{m}:xyz:raw"] = raw
            labels, ok = parse_xyz(raw)
            data[f"{m}:xyz:labels"] = labels
            if not ok:
                problems.append({"file": f"t.{m}.xyz", "dataset": None, "error": "torn or malformed frame"})
    return data, problems


def parse_xyz(raw):
    """-> ([frame labels], well_formed)"""
    lines = raw.decode(errors="replace").split("\n")
    if lines and lines[-1] == "":
        lines = lines[:-1]
        tail_ok = True
    else:
        tail_ok = len(raw) == 0
    labels, i, ok = [], 0, tail_ok
    while i < len(lines):
        try:
            n = int(lines[i].split()[0])
            parts = lines[i + 1].split()
            assert parts[0] == "step:"
            lab = int(parts[1])
            body = lines[i + 2 : i + 2 + n]
            assert len(body) == n and all(len(b.split()) == 4 for b in body)
        except Exception:  # noqa: BLE001
            ok = False
            break
        labels.append(lab)
        i += 2 + n
    return labels, ok


def xyz_frames(raw):
    """-> {label: (n,3) array of printed coordinates} (first occurrence)."""
    lines = raw.decode(errors="replace").split("\n")
    out, i = {}, 0
    while i + 1 < len(lines):
        try:
            n = int(lines[i].split()[0])
            lab = int(lines[i + 1].split()[1])
            body = [[float(x) for x in ln.split()[1:4]] for ln in lines[i + 2 : i + 2 + n]]
        except Exception:  # noqa: BLE001
            break
        out.setdefault(lab, np.array(body))
        i += 2 + n
    return out


def compare(ref, got):
    """Exact comparison of two dumps -> list of differing keys with a short description."""
    bad = []
    for k in sorted(set(ref) | set(got)):
        if k.endswith(":xyz:labels"):
            continue
        if k not in got:
            bad.append((k, "missing"))
        elif k not in ref:
            bad.append((k, "unexpected"))
        else:
            a, b = ref[k], got[k]
            if isinstance(a, bytes):
                if a != b:
                    bad.append((k, "bytes differ"))
            elif a.shape != b.shape:
                bad.append((k, f"shape {b.shape} != {a.shape}"))
            elif not np.array_equal(a, b, equal_nan=(a.dtype.kind == "f")):
                if a.dtype.kind == "f":
                    with np.errstate(invalid="ignore"):
                        d = np.nanmax(np.abs(a - b))
                    rows = np.nonzero((a != b).reshape(a.shape[0], -1).any(axis=1))[0] if a.ndim else []
                    bad.append((k, f"max|diff|={d:.3e} rows={list(rows[:6])}"))
                else:
                    rows = np.nonzero((a != b).reshape(a.shape[0], -1).any(axis=1))[0] if a.ndim else []
                    bad.append((k, f"differs rows={list(rows[:6])} got={b.reshape(-1)[:8].tolist()} ref={a.reshape(-1)[:8].tolist()}"))
    return bad


def files_digest(data):
    h = hashlib.sha256()
    for k in sorted(data):
        v = data[k]
        h.update(k.encode())
        if isinstance(v, bytes):
            h.update(v)
        elif isinstance(v, list):
            h.update(repr(v).encode())
        else:
            h.update(np.ascontiguousarray(v).tobytes())
    return h.hexdigest()[:16]


def log_digest(workdir, inc):
    """Digest of an incarnation's event log (kinds, steps, offsets, sizes; HDF5 file offsets included)."""
    p = os.path.join(workdir, f"events.{inc}.log")
    if not os.path.exists(p):
        return None
    return hashlib.sha256(open(p, "rb").read()).hexdigest()[:16]


# --------------------------------------------------------------------------------------------
# reference model of what each stream must contain (used by C10 and C11)


def due_steps(S, c, initial=True):
    if c <= 0:
        return []
    return ([0] if initial else []) + [s for s in range(1, S + 1) if s % c == 0]


def expected_streams(cfg):
    """Labels every persisted stream must carry for planned length S (pure function of the config)."""
    S = cfg["steps"]
    o = cfg["out"]
    h5 = o["h5"]
    exp = {
        "data": due_steps(S, int(h5.get("data", 0))),
        "coordinates": due_steps(S, int(h5.get("coordinates", 0))),
        "velocities": due_steps(S, int(h5.get("velocities", 0))),
        "forces": due_steps(S, int(h5.get("forces", 0))),
        "xyz": due_steps(S, int(o.get("xyz", 0))),
        "nonadiabatic": due_steps(S, int(h5.get("nonadiabatic", 0))) if cfg["engine"] in ("sh", "sh_model") else [],
        "tdm": due_steps(S, int(h5.get("transition_density_matrices", 0))) if cfg["engine"] in EXC_ENGINES + ("sh",) else [],
        "screen": due_steps(S, int(o.get("print", 0)), initial=False),
        "checkpoint": due_steps(S, int(o.get("ckpt", 0)), initial=False),
    }
    return exp


def sim_time_fs(cfg, incarnations=1):
    return float(cfg["steps"]) * float(cfg["dt"])
