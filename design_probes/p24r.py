# C08/C09 real stratum: energy fluctuation scaling with dt for BOMD and XL-BOMD (real SEQM, H2O)
import os, sys, io, contextlib, shutil, time
import numpy as np, torch, h5py
torch.set_num_threads(1)
sys.path.insert(0,os.environ.get("VERIF_REPO","/repo"))
import seqm, seqm.MolecularDynamics as MDm
from seqm.seqm_functions.constants import Constants
from seqm.Molecule import Molecule
torch.set_default_dtype(torch.float64)
species = torch.as_tensor([[8,1,1]],dtype=torch.int64)
coords = torch.tensor([[[0.0,0.0,0.0],[0.96,0.0,0.0],[-0.24,0.93,0.0]]])
import math
def rot(x,ax,ang):
    c,s_=math.cos(ang),math.sin(ang); R={"z":[[c,-s_,0],[s_,c,0],[0,0,1]],"y":[[c,0,s_],[0,1,0],[-s_,0,c]]}[ax]; return x@torch.tensor(R).T
coords=rot(rot(coords,"z",0.7),"y",0.4)
D="/tmp/scratch/p24_"+sys.argv[1]
def run(cls,dt,steps,**kw):
    shutil.rmtree(D,ignore_errors=True); os.makedirs(D)
    sp={'method':'AM1','scf_eps':1e-10,'scf_converger':[1]}
    out={"molid":[0],"prefix":f"{D}/t","print every":0,"checkpoint every":0,"xyz":0,"h5":{"data":1,"coordinates":1}}
    mol=Molecule(Constants(),sp,coords.clone(),species)
    md=cls(seqm_parameters=sp,timestep=dt,Temp=400.0,output=out,**kw)
    with contextlib.redirect_stdout(io.StringIO()): md.run(mol,steps=steps,reuse_P=True,remove_com=None,seed=2)
    with h5py.File(f"{D}/t.0.h5") as f: return f["data/thermo/Ek"][...]+f["data/thermo/Ep"][...], f["coordinates/values"][...]
eng=sys.argv[1]
cls,kw={"bomd":(MDm.Molecular_Dynamics_Basic,{}),"xl3":(MDm.XL_BOMD,{"xl_bomd_params":{"k":3}}),"xl5":(MDm.XL_BOMD,{"xl_bomd_params":{"k":5}}),"xl7":(MDm.XL_BOMD,{"xl_bomd_params":{"k":7}}),"xl9":(MDm.XL_BOMD,{"xl_bomd_params":{"k":9}}),
        "ksa":(MDm.KSA_XL_BOMD,{"xl_bomd_params":{"k":6,"max_rank":2,"err_threshold":0.0,"T_el":1500}})}[eng]
t0=time.time(); prev=None; ref=None
if eng!="bomd":
    _,ref=run(MDm.Molecular_Dynamics_Basic,0.025,640)
for dt,steps in ((0.4,40),(0.2,80),(0.1,160)):
    E,X=run(cls,dt,steps,**kw); fl=E.max()-E.min(); slope=np.polyfit(np.arange(len(E)),E,1)[0]*len(E)
    dev = np.abs(X[-1]-ref[-1]).max() if ref is not None else float('nan')
    print(f"{eng} dt={dt}: fluct {fl:.3e} ratio {prev/fl if prev else float('nan'):.2f} drift(slope*N) {slope:.2e}  |x-x_BOMD(dt=0.05)| {dev:.2e}"); prev=fl
print("wall",round(time.time()-t0,1))
