import os, sys, io, contextlib, shutil, time
import numpy as np, torch, h5py
torch.set_num_threads(1)
sys.path.insert(0,os.environ.get("VERIF_REPO","/repo"))
import seqm, seqm.MolecularDynamics as MDm, seqm.NonadiabaticDynamics as NDm
from seqm.seqm_functions.constants import Constants
from seqm.Molecule import Molecule
torch.set_default_dtype(torch.float64)
def run(prefix, steps, ck, crash=None, damp=None):
    species = torch.as_tensor([[8,6,1,1],[8,6,1,1]],dtype=torch.int64)
    coords = torch.tensor([[[0.0,0,0],[1.22,0,0],[1.82,0.94,0],[1.82,-0.94,0]],[[0.0,0,0],[1.25,0,0],[1.80,0.96,0.02],[1.84,-0.92,0]]])
    sp={'method':'AM1','scf_eps':1e-8,'scf_converger':[1],"excited_states":{"n_states":3,"method":"cis"}}
    out={"molid":[0,1],"prefix":prefix,"print every":0,"checkpoint every":ck,"xyz":1,"h5":{"data":1,"coordinates":1,"velocities":1,"forces":1,"nonadiabatic":1}}
    mol=Molecule(Constants(),sp,coords,species)
    md=NDm.SurfaceHoppingDynamics(seqm_parameters=sp,timestep=0.4,Temp=300.0,output=out,initial_state=2,damp=damp)
    if crash:
        kind,at=crash; orig=MDm.HDF5Writer.append_vectors
        def patched(self, step_idx, molecule):
            orig(self, step_idx, molecule)
            if step_idx==at:
                if kind=="hard": os._exit(137)
                raise RuntimeError("crash")
        MDm.HDF5Writer.append_vectors=patched
    with contextlib.redirect_stdout(io.StringIO()): md.run(mol,steps=steps,reuse_P=True,remove_com=None,seed=3)
def child(fn,*a,**k):
    pid=os.fork()
    if pid==0:
        try: fn(*a,**k); os._exit(0)
        except BaseException as e: sys.stderr.write("child exc: %r\n"%(e,)); os._exit(3)
    return os.waitpid(pid,0)[1]>>8
def resume(path):
    with contextlib.redirect_stdout(io.StringIO()): NDm.SurfaceHoppingDynamics.run_from_checkpoint(path)
def dump(prefix):
    d={}
    for m in (0,1):
        with h5py.File(f"{prefix}.{m}.h5","r") as f:
            f.visititems(lambda n,o: d.__setitem__(f"{m}:{n}",o[...]) if isinstance(o,h5py.Dataset) else None)
    return d
D="/tmp/scratch/p16"; shutil.rmtree(D,ignore_errors=True); os.makedirs(D)
damp = float(sys.argv[1]) if len(sys.argv)>1 and sys.argv[1]!="none" else None
t0=time.time()
print("ref", child(run,D+"/ref",6,2,damp=damp)); print("crash", child(run,D+"/crs",6,2,("hard",3),damp=damp)); print("resume", child(resume,D+"/crs.restart.pt"))
a=dump(D+"/ref"); b=dump(D+"/crs")
for k in a:
    if a[k].dtype.kind in "iu":
        if not np.array_equal(a[k],b[k]): print("INT DIFF",k,a[k].tolist(),b[k].tolist())
    elif not np.array_equal(a[k],b[k],equal_nan=True): print("FLOAT DIFF",k,np.nanmax(np.abs(a[k]-b[k])))
print("wall",round(time.time()-t0,1))
