import h5py, io, os, numpy as np, time
class SimFile(io.RawIOBase):
    def __init__(self, path, mode):
        self.path=path
        flags = os.O_RDWR | (os.O_CREAT|os.O_TRUNC if mode=='w' else 0)
        self.fd=os.open(path, flags, 0o644); self.pos=0; self.log=[]
    def readable(self): return True
    def writable(self): return True
    def seekable(self): return True
    def seek(self, off, whence=0):
        if whence==0: self.pos=off
        elif whence==1: self.pos+=off
        else: self.pos=os.fstat(self.fd).st_size+off
        return self.pos
    def tell(self): return self.pos
    def readinto(self, b):
        data=os.pread(self.fd, len(b), self.pos); n=len(data); b[:n]=data; self.pos+=n; return n
    def write(self, b):
        n=os.pwrite(self.fd, bytes(b), self.pos); self.log.append(("w",self.pos,n)); self.pos+=n; return n
    def truncate(self, size=None):
        if size is None: size=self.pos
        os.ftruncate(self.fd,size); self.log.append(("t",size)); return size
    def flush(self): self.log.append(("f",))
    def close(self):
        if self.fd is not None: os.close(self.fd); self.fd=None
        super().close()
sf=SimFile("/tmp/scratch/x.h5","w")
t0=time.time()
f=h5py.File(sf,"w")
g=f.create_group("data")
d=g.create_dataset("steps",shape=(20,),dtype=np.int64,chunks=(1,),compression="gzip",compression_opts=4)
v=f.create_dataset("coordinates/values",shape=(20,3,3),dtype=np.float64,chunks=(1,3,3),compression="gzip",compression_opts=4)
print("after create", len(sf.log))
for i in range(5):
    d[i]=i; v[i]=np.random.rand(3,3)
print("after 5 rows", len(sf.log))
f.flush(); print("after flush", len(sf.log), sf.log[-8:])
for i in range(5,8):
    d[i]=i; v[i]=np.random.rand(3,3)
print("after 3 more rows (no flush)", len(sf.log))
n_before=len(sf.log)
# simulate hard kill: abandon without close: copy the on-disk file now
import shutil; shutil.copy("/tmp/scratch/x.h5","/tmp/scratch/x_killed.h5")
f.close(); print("after close", len(sf.log), time.time()-t0)
with h5py.File("/tmp/scratch/x_killed.h5","r") as k: print("killed copy:", k["data/steps"][...])
sf2=SimFile("/tmp/scratch/x.h5","r+")
f2=h5py.File(sf2,"r+"); print(f2["data/steps"][...]); f2["data/steps"][9]=9; f2.close(); print("r+ writes", len(sf2.log))
