import os, sys, io, contextlib, types, shutil, math, time
import numpy as np, torch, h5py
torch.set_num_threads(1)
sys.path.insert(0,"/repo")
import seqm, seqm.MolecularDynamics as MDm
from seqm.seqm_functions.constants import Constants
from seqm.Molecule import Molecule
torch.set_default_dtype(torch.float64)
src=open("/tmp/scratch/t8.py").read()
exec("class StubES"+src.split("class StubES")[1].split("MDm.esdriver = StubES")[0])
MDm.esdriver=StubES
species = torch.as_tensor([[8,1,1],[9,1,0]],dtype=torch.int64)
coords = torch.tensor([[[0.0,0.0,0.0],[0.96,0.0,0.0],[-0.24,0.93,0.0]],[[0.0,0.0,0.0],[1.1,0.0,0.0],[0.0,0.0,0.0]]])
sp={'method':'AM1','scf_eps':1e-8,'scf_converger':[1]}
D="/tmp/scratch/p12"
def run(cls,dt,steps,seed=1,T=300.0,vel=None,**kw):
    shutil.rmtree(D,ignore_errors=True); os.makedirs(D)
    out={"molid":[0,1],"prefix":f"{D}/t","print every":0,"checkpoint every":0,"xyz":0,"h5":{"data":1,"coordinates":1,"velocities":1}}
    mol=Molecule(Constants(),dict(sp),coords.clone(),species)
    if vel is not None: mol.velocities=vel.clone()
    md=cls(seqm_parameters=dict(sp),timestep=dt,Temp=T,output=out,**kw)
    with contextlib.redirect_stdout(io.StringIO()): md.run(mol,steps=steps,reuse_P=True,remove_com=None,seed=seed)
    r={}
    for m in (0,1):
        with h5py.File(f"{D}/t.{m}.h5") as f: r[m]={k:f[k][...] for k in ("coordinates/values","velocities/values","data/thermo/Ek","data/thermo/Ep","data/thermo/T")}
    return r,mol
# order: total time 8 fs
ref,_=run(MDm.Molecular_Dynamics_Basic,0.0125,640)
prev=None
for dt,steps in ((0.4,20),(0.2,40),(0.1,80),(0.05,160)):
    r,_=run(MDm.Molecular_Dynamics_Basic,dt,steps)
    err=max(np.abs(r[m]["coordinates/values"][-1]-ref[m]["coordinates/values"][-1]).max() for m in (0,1))
    E=r[0]["data/thermo/Ek"]+r[0]["data/thermo/Ep"]; fl=E.max()-E.min()
    print(f"dt={dt}: traj err {err:.3e} (ratio {prev[0]/err if prev else float('nan'):.2f})  E fluct {fl:.3e} (ratio {prev[1]/fl if prev else float('nan'):.2f})"); prev=(err,fl)
# reversibility
r,mol=run(MDm.Molecular_Dynamics_Basic,0.2,40)
x0=r[0]["coordinates/values"][0]
v_end=torch.tensor(np.stack([np.pad(r[m]["velocities/values"][-1],((0,3-r[m]["velocities/values"].shape[1]),(0,0))) for m in (0,1)]))
# rerun from end with reversed velocities: need end coordinates as start
coords_end=torch.tensor(np.stack([np.pad(r[m]["coordinates/values"][-1],((0,3-r[m]["coordinates/values"].shape[1]),(0,0))) for m in (0,1)]))
