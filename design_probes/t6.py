import sys, time, torch, io, contextlib, os
import seqm
from seqm.seqm_functions.constants import Constants
from seqm.Molecule import Molecule
from seqm.ElectronicStructure import Electronic_Structure
torch.set_default_dtype(torch.float64); torch.set_num_threads(1)
species = torch.as_tensor([[8,1,1]],dtype=torch.int64)
coords = torch.tensor([[[0.0,0.0,0.0],[0.96,0.0,0.0],[-0.24,0.93,0.0]]])
const = Constants()
sp = {'method':'AM1','scf_eps':1e-8,'scf_converger':[1]}
mol = Molecule(const, sp, coords.clone(), species); mol.verbose=False
es = Electronic_Structure(sp)
es(mol)
t0=time.time()
for _ in range(5): es(mol)
base=(time.time()-t0)/5
cnt={"calls":0,"lines":0}
targets=("scf_loop.py","SP2.py")
def tracer(frame, event, arg):
    cnt["calls"]+=1
    if frame.f_code.co_filename.endswith(targets):
        return local
    return None
def local(frame, event, arg):
    if event=="line": cnt["lines"]+=1
    return local
sys.settrace(tracer)
t0=time.time()
for _ in range(5): es(mol)
tr=(time.time()-t0)/5
sys.settrace(None)
print("base", base, "traced", tr, cnt)
# all seqm files line tracing
cnt={"calls":0,"lines":0}
def tracer2(frame, event, arg):
    cnt["calls"]+=1
    if "/repo/seqm/" in frame.f_code.co_filename: return local
    return None
sys.settrace(tracer2)
t0=time.time()
for _ in range(5): es(mol)
tr=(time.time()-t0)/5
sys.settrace(None)
print("all-seqm traced", tr, cnt)
