# U1: N-state analytic model driving the REAL SurfaceHoppingDynamics.run loop (propagation, hops, rescale, crossings, writers)
import os, sys, io, contextlib, types, shutil, math
import numpy as np, torch, h5py
torch.set_num_threads(1)
sys.path.insert(0,"/repo")
import seqm.MolecularDynamics as MDm, seqm.NonadiabaticDynamics as NDm
from seqm.seqm_functions.constants import Constants
torch.set_default_dtype(torch.float64)
class NStateModel:
    def __init__(self, ns, seed):
        g=torch.Generator().manual_seed(seed)
        self.ns=ns; self.eps=torch.sort(torch.rand(ns,generator=g)*1.0)[0]; self.slope=(torch.rand(ns,generator=g)-0.5)*1.5
        c=torch.rand(ns,ns,generator=g)*0.08; self.c=(c+c.T)/2*(1-torch.eye(ns)); self.q0=1.2; self.k=6.0
    def H(self,q):   # q: (nmol,) -> (nmol,ns,ns), dH/dq
        d=q-self.q0
        diag=self.eps+self.slope*d.unsqueeze(1)+0.5*self.k*d.unsqueeze(1)**2
        gauss=torch.exp(-(d**2)/0.05).view(-1,1,1)
        H=torch.diag_embed(diag)+self.c*gauss
        dH=torch.diag_embed(self.slope+self.k*d.unsqueeze(1))+self.c*gauss*(-2*d/0.05).view(-1,1,1)
        return H,dH
    def solve(self,R):  # R (nmol,natom,3); q = |R1-R0|
        rv=R[:,1]-R[:,0]; q=rv.norm(dim=1); u=rv/q.unsqueeze(1)
        H,dH=self.H(q); E,U=torch.linalg.eigh(H)
        # fix eigenvector sign deterministically
        s=torch.sign(U[:,0:1,:]); s[s==0]=1; U=U*s
        G=U.transpose(1,2)@dH@U          # (nmol,ns,ns)
        dE=torch.diagonal(G,dim1=1,dim2=2)
        gap=E.unsqueeze(1)-E.unsqueeze(2)   # E_j - E_i at [i,j]
        nac=torch.where(gap.abs()>1e-12, G/gap, torch.zeros_like(G)); nac=nac*(1-torch.eye(self.ns))
        dq=torch.zeros_like(R); dq[:,0]=-u; dq[:,1]=u      # dq/dR
        return E,dE,nac,dq
class Mol:
    def __init__(self,nmol,natom,seed):
        g=torch.Generator().manual_seed(seed)
        self.coordinates=torch.zeros(nmol,natom,3); self.coordinates[:,1,0]=1.0+0.1*torch.rand(nmol,generator=g)
        if natom>2: self.coordinates[:,2]=torch.tensor([0.3,1.5,0.2])
        self.velocities=0.02*(torch.rand(nmol,natom,3,generator=g)-0.5)
        self.species=torch.ones(nmol,natom,dtype=torch.int64); self.species[:,0]=6
        m=torch.tensor([12.0]+[1.0]*(natom-1)); self.mass=m.view(1,natom,1).expand(nmol,natom,1).clone(); self.mass_inverse=1.0/self.mass
        self.acc=torch.zeros_like(self.coordinates); self.force=torch.zeros_like(self.coordinates)
        self.dm=torch.zeros(nmol,1,1); self.cis_amplitudes=None; self.cis_energies=None; self.transition_density_matrices=None
        self.Etot=torch.zeros(nmol); self.const=Constants(); self.num_atoms=torch.full((nmol,),float(natom)); self.nmol=nmol
        self.norb=torch.full((nmol,),4*natom); self.nocc=torch.full((nmol,),2); self.active_state=1; self.old_mos=None
        self.dipole=torch.zeros(nmol,3); self.e_gap=torch.ones(nmol); self.w=None; self.verbose=False
class StubES(torch.nn.Module):
    def __init__(s,*a,**k):
        super().__init__(); s._p=torch.nn.Parameter(torch.zeros(1),requires_grad=False)
        s.conservative_force=types.SimpleNamespace(energy=types.SimpleNamespace(md=False,namd=False,excited_states={"n_states":2,"method":"cis","tolerance":1e-6}))
MDm.esdriver=StubES
class ModelFSSH(NDm.SurfaceHoppingDynamics):
    def __init__(self, model, timestep, output, substeps=None, decohere=False):
        params={"method":"AM1","elements":[0,1,6],"scf_eps":1e-8,"scf_converger":[1],"excited_states":{"n_states":model.ns},
                "nonadiabatic":{"compute_nac":True,"detect_crossings":False,"decohere_on_hop":decohere}}
        super().__init__(params,timestep=timestep,output=output)
        self.model=model; self._nstates=model.ns; self._electronic_substeps=substeps
    def _setup_states(self,molecule):
        self._nstates=self.model.ns; self._ensure_active_states(molecule.species.shape[0],molecule.coordinates.device)
    def initialize_velocity(self,molecule,vel_com=True): return super().initialize_velocity(molecule,vel_com=False)
    def initialize(self,molecule,remove_com=None,learned_parameters=None,*a,**k):
        self._setup_states(molecule); self._init_coeffs(molecule); molecule.active_state=self._active_states+1
        self._compute_electronic_structure(molecule,learned_parameters or {})
        return super().initialize(molecule,remove_com=remove_com,learned_parameters=learned_parameters,*a,**k)
    def _compute_electronic_structure(self,molecule,learned_parameters,**kw):
        R=molecule.coordinates.detach(); E,dE,nac,dq=self.model.solve(R); nmol=R.shape[0]; ar=torch.arange(nmol)
        self._E=E; self._dE=dE; self._nac=nac; self._dq=dq
        molecule.cis_energies=E-E[:,0:1]*0  # treat as 'excitation energies' relative to a zero ground energy
        act=self._active_states
        molecule.Etot=E[ar,act].clone(); molecule.force=(-dE[ar,act]).view(nmol,1,1)*dq
        v=molecule.velocities; qdot=(v*dq).sum((1,2))
        self._cache_new={"energies":E.clone(),"nac_dot":nac*qdot.view(-1,1,1)}
        return self._cache_new["energies"]
    def _compute_NACR_for_hop(self,molecule,nac_pairs):
        return {(a-1,b-1): self._nac[:,a-1,b-1].view(-1,1,1)*self._dq for (a,b) in nac_pairs}
    def _recompute_active_force(self,molecule):
        nmol=molecule.coordinates.shape[0]; ar=torch.arange(nmol); act=self._active_states
        molecule.force=(-self._dE[ar,act]).view(nmol,1,1)*self._dq
D="/tmp/scratch/p19"; shutil.rmtree(D,ignore_errors=True); os.makedirs(D)
out={"molid":[0,1,2],"prefix":D+"/t","print every":0,"checkpoint every":0,"xyz":0,"h5":{"data":1,"coordinates":1,"velocities":1,"nonadiabatic":2}}
model=NStateModel(4,3); mol=Mol(3,3,1)
dyn=ModelFSSH(model,0.1,out)
dyn.initial_state=torch.tensor([2,3,1])
etot=[]; norms=[]
orig=dyn._after_electronic_update
def wrapped(molecule,excitation_energies,step=None):
    orig(molecule,excitation_energies,step=step)
    ke=dyn._kinetic_energy(molecule); etot.append((ke+molecule.Etot).clone()); norms.append(dyn.populations.sum(1).clone())
dyn._after_electronic_update=wrapped
with contextlib.redirect_stdout(io.StringIO()): dyn.run(mol,steps=400,reuse_P=True,remove_com=None,seed=7)
E=torch.stack(etot); N=torch.stack(norms)
print("hops:",[(e.step,e.mol_index,e.from_state,e.to_state,e.accepted) for e in dyn.hop_log][:12], "n=",len(dyn.hop_log))
print("Etot range per traj:",(E.max(0)[0]-E.min(0)[0]).tolist()); print("norm dev:",(N-1).abs().max().item())
with h5py.File(D+"/t.1.h5") as f: print("na steps",f["data/nonadiabatic/steps"][...][:6], "active",f["data/nonadiabatic/active_surface"][...][:20])
