import os, sys, io, contextlib, shutil, types
import numpy as np, torch, h5py
torch.set_num_threads(1)
sys.path.insert(0,os.environ.get("VERIF_REPO","/repo"))
import seqm, seqm.MolecularDynamics as MDm
from seqm.seqm_functions.constants import Constants
from seqm.Molecule import Molecule
torch.set_default_dtype(torch.float64)
src=open("/tmp/scratch/t8.py").read()
exec("class StubES"+src.split("class StubES")[1].split("MDm.esdriver = StubES")[0])
MDm.esdriver=StubES
species = torch.as_tensor([[8,1,1],[8,1,1]],dtype=torch.int64)
coords = torch.tensor([[[0.0,0.0,0.0],[0.96,0.0,0.0],[-0.24,0.93,0.0]],[[0.0,0.0,0.0],[1.0,0.0,0.0],[-1.0,0.0,0.0]]])
sp={'method':'AM1','scf_eps':1e-8,'scf_converger':[1]}
D="/tmp/scratch/p6"
def run(cls, seed, pre=0, vel=None, rc=None, T=300.0, **kw):
    shutil.rmtree(D,ignore_errors=True); os.makedirs(D)
    out={"molid":[0,1],"prefix":f"{D}/t","print every":0,"checkpoint every":0,"xyz":0,"h5":{"data":1,"coordinates":1,"velocities":1}}
    mol=Molecule(Constants(),dict(sp),coords.clone(),species)
    if vel is not None: mol.velocities=vel.clone()
    md=cls(seqm_parameters=dict(sp),timestep=0.5,Temp=T,output=out,**kw)
    if pre: torch.randn(pre)
    with contextlib.redirect_stdout(io.StringIO()): md.run(mol,steps=5,reuse_P=True,remove_com=rc,seed=seed)
    r={}
    for m in (0,1):
        with h5py.File(f"{D}/t.{m}.h5") as f:
            r[m]=(f["velocities/values"][...],f["coordinates/values"][...],f["data/thermo/T"][...])
    return r, mol, md
for cls,kw in ((MDm.Molecular_Dynamics_Basic,{}),(MDm.Molecular_Dynamics_Langevin,{"damp":10.0})):
    a,_,_=run(cls,5,**kw); b,_,_=run(cls,5,pre=17,**kw); c,_,_=run(cls,6,**kw)
    print(cls.__name__,"same seed after RNG use bitwise:", all(np.array_equal(a[m][0],b[m][0]) for m in a), "diff seed differs:", not np.array_equal(a[0][0],c[0][0]))
    print("  T0", a[0][2][0], a[1][2][0])
# momenta at step 0
r,mol,md=run(MDm.Molecular_Dynamics_Basic,1,rc=("angular",1))
mass=mol.mass.squeeze(-1).numpy()
for m in (0,1):
    n=int((species[m]>0).sum()); v=r[m][0][0]; x=r[m][1][0]; ms=mass[m,:n,None]
    P=(ms*v).sum(0); xc=x-(ms*x).sum(0)/ms.sum(); L=(ms*np.cross(xc,v)).sum(0)
    print("mol",m,"P",np.abs(P).max(),"L",np.abs(L).max(),"T0",r[m][2][0],"n_dof",md.n_dof[m].item())
# user-supplied velocities
vel=torch.zeros(2,3,3); vel[0,:,0]=0.01; vel[0,1,1]=0.02; vel[1,0,2]=0.01; vel[1,1,2]=0.01
r,mol,md=run(MDm.Molecular_Dynamics_Basic,1,vel=vel)
print("user vel step0 H5:", r[0][0][0].tolist(), "supplied:", vel[0].tolist())
