# (d) C17 L2: per-trajectory isolation in the real run loop with the N-state model
import os, sys, io, contextlib
import numpy as np, torch
exec(open("/tmp/scratch/p19.py").read().split('D="/tmp/scratch/p19"')[0])
def run(perturb, substeps, seed=7, steps=300):
    out={"molid":[],"prefix":"/tmp/scratch/p34","print every":0,"checkpoint every":0,"xyz":0,"h5":{}}
    model=NStateModel(4,3); mol=Mol(3,3,1)
    if perturb:
        mol.velocities[2]*=1.7; mol.coordinates[2,1,0]+=0.05
    dyn=ModelFSSH(model,0.1,out,substeps=substeps); dyn.initial_state=torch.tensor([2,3,1])
    traj=[]
    orig=dyn._after_electronic_update
    def wrapped(molecule,excitation_energies,step=None):
        orig(molecule,excitation_energies,step=step); traj.append((molecule.coordinates.clone(),molecule.velocities.clone(),dyn._amp_phase.clone(),dyn._active_states.clone()))
    dyn._after_electronic_update=wrapped
    with contextlib.redirect_stdout(io.StringIO()): dyn.run(mol,steps=steps,reuse_P=True,remove_com=None,seed=seed)
    return traj,[(e.step,e.mol_index,e.from_state,e.to_state,e.accepted) for e in dyn.hop_log]
for sub in (8,None):
    a,ha=run(False,sub); b,hb=run(True,sub)
    same_bits=all(torch.equal(x[0][:2],y[0][:2]) and torch.equal(x[1][:2],y[1][:2]) and torch.equal(x[2][:2],y[2][:2]) and torch.equal(x[3][:2],y[3][:2]) for x,y in zip(a,b))
    dmax=max(max((x[0][:2]-y[0][:2]).abs().max().item(),(x[2][:2,:,:2]-y[2][:2,:,:2]).abs().max().item()) for x,y in zip(a,b))
    print("substeps",sub,": trajectories 0,1 bit-identical when trajectory 2 is perturbed:",same_bits,"max diff",dmax,"| hops traj0/1 equal:",[h for h in ha if h[1]<2]==[h for h in hb if h[1]<2], "n hops",len(ha),len(hb))
