import os, sys, io, contextlib, types
import torch
torch.set_num_threads(1)
sys.path.insert(0,"/repo")
import seqm, seqm.MolecularDynamics as MDm
from seqm.seqm_functions.constants import Constants
from seqm.Molecule import Molecule
torch.set_default_dtype(torch.float64)
src=open("/tmp/scratch/t8.py").read()
exec("class StubES"+src.split("class StubES")[1].split("MDm.esdriver = StubES")[0])
MDm.esdriver=StubES
species = torch.as_tensor([[8,1,1],[9,1,0]],dtype=torch.int64)
coords = torch.tensor([[[0.0,0.0,0.0],[0.96,0.0,0.0],[-0.24,0.93,0.0]],[[0.0,0.0,0.0],[1.1,0.0,0.0],[3.0,3.0,3.0]]])
sp={'method':'AM1','scf_eps':1e-8,'scf_converger':[1],'elements':[0,1,8,9]}
for alpha,tol,cap in ((0.01,1e-4,1000),(0.01,1e-4,7),(0.02,1e-2,1000),(0.06,1e-3,50)):
    mol=Molecule(Constants(),dict(sp),coords.clone(),species)
    opt=MDm.Geometry_Optimization_SD(dict(sp),alpha=alpha,force_tol=tol,max_evl=cap) if False else None
    # Force() inside needs real Energy -> construct with real names but stub esdriver only
    opt=MDm.Geometry_Optimization_SD(sp,alpha=alpha,force_tol=tol,max_evl=cap)
    hist=[]
    orig=opt.onestep
    def one(molecule, learned_parameters=dict()):
        f,E=orig(molecule,learned_parameters=learned_parameters); hist.append((E.clone(),f.abs().max().item())); return f,E
    opt.onestep=one
    buf=io.StringIO()
    with contextlib.redirect_stdout(buf): ferr,derr=opt.run(mol,log=True)
    E=torch.stack([h[0] for h in hist]); inc=(E[1:]-E[:-1]).max().item()
    first=[i for i,h in enumerate(hist) if h[1]<=tol]
    print(f"alpha={alpha} tol={tol} cap={cap}: evals={len(hist)} first<=tol at {first[0]+1 if first else None} max dE step {inc:.2e} returned ferr={ferr.item():.3e} last hist {hist[-1][1]:.3e} msg={'not converged' in buf.getvalue()} pad moved={(mol.coordinates[1,2]-coords[1,2]).abs().max().item():.1e}")
