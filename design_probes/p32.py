# (a) C12 exact FDT via recording proxy; (b) C13 periodic COM removal invariants
import os, sys, io, contextlib, types, shutil, math
import numpy as np, torch
torch.set_num_threads(1)
sys.path.insert(0,os.environ.get("VERIF_REPO","/repo"))
import seqm, seqm.MolecularDynamics as MDm
from seqm.seqm_functions.constants import Constants
from seqm.Molecule import Molecule
torch.set_default_dtype(torch.float64)
src=open("/tmp/scratch/t8.py").read()
exec("class StubES"+src.split("class StubES")[1].split("MDm.esdriver = StubES")[0])
MDm.esdriver=StubES
class TorchProxy:
    draws=[]
    def __getattr__(self,k): return getattr(torch,k)
    def randn_like(self,x,*a,**k):
        r=torch.randn_like(x,*a,**k); TorchProxy.draws.append(r.clone()); return r
MDm.torch=TorchProxy()
# independent constants (CODATA 2018)
kB_eV=8.617333262e-5; amu=1.66053906660e-27; eV=1.602176634e-19
kB_amuA2fs2=kB_eV*eV/amu*1e-10   # (amu A^2/fs^2)/K
species = torch.as_tensor([[8,1,1],[9,1,0]],dtype=torch.int64)
coords = torch.tensor([[[0.0,0.0,0.0],[0.96,0.0,0.0],[-0.24,0.93,0.0]],[[0.0,0.0,0.0],[1.1,0.0,0.0],[3.0,3.0,3.0]]])
sp={'method':'AM1','scf_eps':1e-8,'scf_converger':[1]}
worst=0
for dt,damp,T in ((0.5,50.0,300.0),(0.05,500.0,1200.0),(1.0,0.1,77.0),(0.2,2.0,0.0)):
    mol=Molecule(Constants(),dict(sp),coords.clone(),species)
    md=MDm.Molecular_Dynamics_Langevin(damp=damp,seqm_parameters=dict(sp),timestep=dt,Temp=T,output={"molid":[0],"prefix":"/tmp/scratch/p32","print every":0,"checkpoint every":0,"xyz":0,"h5":{}})
    rec=[]
    orig=md._apply_langevin_thermostat
    def wrapped(molecule):
        n0=len(TorchProxy.draws); v0=molecule.velocities.clone(); orig(molecule); v1=molecule.velocities.clone()
        assert len(TorchProxy.draws)==n0+1; rec.append((v0,TorchProxy.draws[-1],v1))
    md._apply_langevin_thermostat=wrapped
    with contextlib.redirect_stdout(io.StringIO()): md.run(mol,steps=6,seed=4)
    c1=math.exp(-dt/(2*damp)); m=mol.mass
    c2=torch.sqrt((1-c1*c1)*kB_amuA2fs2*T*torch.where(m>0,1.0/m,torch.zeros_like(m)))
    for v0,xi,v1 in rec:
        pred=c1*v0+c2*xi; scale=(v1.abs().max()+1e-30)
        worst=max(worst,((pred-v1).abs().max()/scale).item())
    print(f"dt={dt} damp={damp} T={T}: thermostat applications {len(rec)} (expected {2*6}); max rel deviation from independent O-U update {worst:.2e}; padding vel {mol.velocities[1,2].abs().max().item():.1e}")
# (b) periodic COM removal
MDm.torch=torch
for mode in ("linear","angular"):
    mol=Molecule(Constants(),dict(sp),coords.clone(),species)
    md=MDm.Molecular_Dynamics_Basic(seqm_parameters=dict(sp),timestep=0.5,Temp=300.0,output={"molid":[0],"prefix":"/tmp/scratch/p32","print every":0,"checkpoint every":0,"xyz":0,"h5":{}})
    orig=md._zero_com; log=[]
    def wz(molecule,*a,**k):
        ke0=md._kinetic_energy(molecule).clone(); orig(molecule,*a,**k); ke1=md._kinetic_energy(molecule)
        ms=molecule.mass; P=(ms*molecule.velocities).sum(1); M=ms.sum(1,keepdim=True); rc=(ms*molecule.coordinates).sum(1,keepdim=True)/M
        L=(ms*torch.linalg.cross(molecule.coordinates-rc,molecule.velocities,dim=2)).sum(1)
        log.append((P.abs().max().item(),L.abs().max().item(),((ke1-ke0)/ke0).abs().max().item(),k.get("restore_kinetic_energy",True)))
    md._zero_com=wz
    try:
        with contextlib.redirect_stdout(io.StringIO()): md.run(mol,steps=6,seed=4,remove_com=(mode,2))
        print(mode,"calls",len(log),"max|P|",max(l[0] for l in log),"max|L|",max(l[1] for l in log),"max rel dKE",max(l[2] for l in log),"n_dof",md.n_dof.tolist())
    except Exception as e: print(mode,"EXC",e)
