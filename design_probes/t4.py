import torch, io, contextlib
import seqm
from seqm.seqm_functions.constants import Constants
from seqm.Molecule import Molecule
from seqm.MolecularDynamics import Molecular_Dynamics_Basic
torch.set_default_dtype(torch.float64); torch.set_num_threads(1)
species = torch.as_tensor([[8,1,1],[1,1,0]],dtype=torch.int64)
coords = torch.tensor([[[0.0,0.0,0.0],[0.96,0.0,0.0],[-0.24,0.93,0.0]],[[0.0,0.0,0.0],[0.74,0.0,0.0],[5.0,5.0,5.0]]])
const = Constants()
print("mass[0]", const.mass[0])
sp = {'method':'AM1','scf_eps':1e-8,'scf_converger':[1]}
out = {"molid":[0,1],"prefix":"/tmp/scratch/run4","print every":0,"checkpoint every":0,"xyz":0,"h5":{}}
mol = Molecule(const, sp, coords.clone(), species)
md = Molecular_Dynamics_Basic(seqm_parameters=sp, timestep=0.5, Temp=300.0, output=out)
with contextlib.redirect_stdout(io.StringIO()):
    md.run(mol, steps=3, reuse_P=True, remove_com=('linear',1), seed=1)
print(mol.velocities[1]); print(mol.coordinates[1]); print(mol.mass_inverse[1].T, mol.mass[1].T)
