# P15: real MD engine (stub forces) with ALL I/O behind shims injected by namespace patching; hard-kill at Nth I/O event
import os, sys, io, contextlib, types, shutil, builtins, json
import numpy as np, torch, h5py as real_h5py
torch.set_num_threads(1)
sys.path.insert(0,os.environ.get("VERIF_REPO","/repo"))
import seqm, seqm.MolecularDynamics as MDm
from seqm.seqm_functions.constants import Constants
from seqm.Molecule import Molecule
torch.set_default_dtype(torch.float64)
src=open("/tmp/scratch/t8.py").read()
exec("class StubES"+src.split("class StubES")[1].split("MDm.esdriver = StubES")[0])
MDm.esdriver=StubES
class Sim:
    n=0; kill_at=None; log=[]
    @classmethod
    def ev(cls,kind,detail=""):
        cls.n+=1; cls.log.append((cls.n,kind,detail))
        if cls.kill_at is not None and cls.n==cls.kill_at:
            os._exit(137)
class H5Raw(io.RawIOBase):
    def __init__(self,path,mode):
        flags=os.O_RDWR|(os.O_CREAT|os.O_TRUNC if mode=="w" else 0); self.fd=os.open(path,flags,0o644); self.pos=0; self.name=os.path.basename(path)
    def readable(self): return True
    def writable(self): return True
    def seekable(self): return True
    def seek(self,off,whence=0):
        self.pos = off if whence==0 else (self.pos+off if whence==1 else os.fstat(self.fd).st_size+off); return self.pos
    def tell(self): return self.pos
    def readinto(self,b):
        d=os.pread(self.fd,len(b),self.pos); b[:len(d)]=d; self.pos+=len(d); return len(d)
    def write(self,b):
        Sim.ev("h5.pwrite",f"{self.name}@{self.pos}+{len(b)}"); n=os.pwrite(self.fd,bytes(b),self.pos); self.pos+=n; return n
    def truncate(self,size=None):
        Sim.ev("h5.truncate",self.name); size=self.pos if size is None else size; os.ftruncate(self.fd,size); return size
    def flush(self): pass
    def close(self):
        if getattr(self,"fd",None) is not None: os.close(self.fd); self.fd=None
        super().close()
class H5Shim:
    Group=real_h5py.Group; Dataset=real_h5py.Dataset
    @staticmethod
    def File(path,mode="r"):
        Sim.ev("h5.open",f"{os.path.basename(path)}:{mode}")
        return real_h5py.File(H5Raw(path,mode),mode)
class TextShim:
    def __init__(self,path,mode,buffering): self.f=builtins.open(path,mode,buffering=buffering); self.name=os.path.basename(path)
    def write(self,s): Sim.ev("xyz.write",self.name); return self.f.write(s)
    def flush(self): Sim.ev("xyz.flush",self.name); return self.f.flush()
    def close(self): Sim.ev("xyz.close",self.name); return self.f.close()
def open_shim(path,mode="r",buffering=-1,**kw):
    if mode!="a+": return builtins.open(path,mode,buffering=buffering,**kw)
    return TextShim(path,mode,buffering)
class OsShim:
    def __getattr__(self,k): return getattr(os,k)
    def replace(self,a,b): Sim.ev("os.replace.before"); os.replace(a,b); Sim.ev("os.replace.after")
    def rename(self,a,b): Sim.ev("os.rename"); os.rename(a,b)
class CkFile(io.RawIOBase):
    def __init__(self,path): self.f=builtins.open(path,"wb",buffering=0)
    def writable(self): return True
    def write(self,b): Sim.ev("ckpt.write",str(len(b))); return self.f.write(b)
    def flush(self): pass
    def close(self): self.f.close(); super().close()
class TorchShim:
    def __getattr__(self,k): return getattr(torch,k)
    def save(self,obj,path):
        Sim.ev("ckpt.save.begin"); f=CkFile(path); torch.save(obj,f); f.close(); Sim.ev("ckpt.save.end")
MDm.h5py=H5Shim; MDm.open=open_shim; MDm.os=OsShim(); MDm.torch=TorchShim()
species = torch.as_tensor([[8,1,1],[1,1,0]],dtype=torch.int64)
coords = torch.tensor([[[0.0,0.0,0.0],[0.96,0.0,0.0],[-0.24,0.93,0.0]],[[0.0,0.0,0.0],[0.74,0.0,0.0],[0.0,0.0,0.0]]])
sp={'method':'AM1','scf_eps':1e-8,'scf_converger':[1]}
def run(prefix,kill_at=None):
    Sim.n=0; Sim.kill_at=kill_at; Sim.log=[]
    out={"molid":[0,1],"prefix":prefix,"print every":0,"checkpoint every":4,"xyz":1,"h5":{"data":1,"coordinates":1,"velocities":1,"forces":1}}
    mol=Molecule(Constants(),dict(sp),coords.clone(),species)
    md=MDm.XL_BOMD(seqm_parameters=dict(sp),timestep=0.5,Temp=300.0,output=out,xl_bomd_params={"k":5})
    with contextlib.redirect_stdout(io.StringIO()): md.run(mol,steps=10,reuse_P=True,remove_com=None,seed=1)
def resume(path):
    Sim.n=0; Sim.kill_at=None
    with contextlib.redirect_stdout(io.StringIO()): MDm.Molecular_Dynamics_Basic.run_from_checkpoint(path)
def child(fn,*a):
    pid=os.fork()
    if pid==0:
        try: fn(*a); os._exit(0)
        except BaseException as e: sys.stderr.write("child exc: %r\n"%(str(e)[:150],)); os._exit(3)
    return os.waitpid(pid,0)[1]>>8
def dump(prefix):
    d={}
    for m in (0,1):
        with real_h5py.File(f"{prefix}.{m}.h5","r") as f:
            f.visititems(lambda n,o: d.__setitem__(f"{m}:{n}",o[...]) if isinstance(o,real_h5py.Dataset) else None)
        d[f"{m}:xyz"]=np.array([int(l.split()[1]) for l in builtins.open(f"{prefix}.{m}.xyz") if l.startswith("step:")])
    return d
D="/tmp/scratch/p15"; shutil.rmtree(D,ignore_errors=True); os.makedirs(D+"/ref")
run(D+"/ref/t"); total=Sim.n; kinds={}
for n,k,d in Sim.log: kinds[k]=kinds.get(k,0)+1
print("total I/O events",total,kinds)
ref=dump(D+"/ref/t")
import collections; res=collections.Counter(); fails=[]
for k in range(1,total+1):
    shutil.rmtree(D+"/c",ignore_errors=True); os.makedirs(D+"/c")
    ec=child(run,D+"/c/t",k)
    if not os.path.exists(D+"/c/t.restart.pt"): res["no-ckpt-yet"]+=1; continue
    er=child(resume,D+"/c/t.restart.pt")
    if er!=0: res["resume-failed"]+=1; fails.append((k,Sim.log[k-1] if False else None)); continue
    try: got=dump(D+"/c/t")
    except Exception as e: res["final-h5-unreadable"]+=1; fails.append((k,"unreadable:"+str(e)[:60])); continue
    bad=[key for key in ref if not np.array_equal(ref[key],got[key])]
    if bad: res["diff:"+",".join(sorted(set(b.split(":")[1].split("/")[0] for b in bad)))]+=1; fails.append((k,bad[:2]))
    else: res["ok"]+=1
print(dict(res))
# map failing k to event kinds using the reference log
run(D+"/ref/t2")
for k,_ in fails[:60]: print(k, Sim.log[k-1][1:], _)
