# R5: mini history simulator for C15 on the unchanged tree
import os, sys, hashlib, random, io, contextlib, json, shutil, types
import torch
torch.set_num_threads(1)
sys.path.insert(0,os.environ.get("VERIF_REPO","/repo"))
import seqm
from seqm.seqm_functions.constants import Constants
from seqm.Molecule import Molecule
from seqm.ElectronicStructure import Electronic_Structure
from seqm.basics import Energy
import seqm.MolecularDynamics as MDm
import seqm.seqm_functions.rcis_batch as RB
RB.psutil=types.SimpleNamespace(virtual_memory=lambda: types.SimpleNamespace(available=8*2**30))
torch.set_default_dtype(torch.float64)
M={"h2o":([[8,1,1]],[[[0.0,0.0,0.0],[0.96,0.0,0.0],[-0.24,0.93,0.0]]]),
   "ch4":([[6,1,1,1,1]],[[[0.0,0.0,0.0],[0.63,0.63,0.63],[-0.63,-0.63,0.63],[-0.63,0.63,-0.63],[0.63,-0.63,-0.63]]]),
   "h2co":([[8,6,1,1]],[[[0.0,0,0],[1.22,0,0],[1.82,0.94,0],[1.82,-0.94,0]]]),
   "mix":([[8,1,1],[1,1,0]],[[[0.0,0.0,0.0],[0.96,0.0,0.0],[-0.24,0.93,0.0]],[[0.0,0,0],[0.74,0,0],[0,0,0]]]),
   "ch3":([[6,1,1,1]],[[[0.0,0,0.0],[1.08,0,0],[-0.54,0.935,0],[-0.54,-0.935,0]]]),
   "nh3":([[7,1,1,1]],[[[0.0,0,0.1],[0.94,0,-0.27],[-0.47,0.81,-0.27],[-0.47,-0.81,-0.27]]])}
JOBS={
 "sp_am1_h2o":dict(mol="h2o",sp={'method':'AM1','scf_eps':1e-8,'scf_converger':[1]}),
 "sp_pm3_ch4_pulay":dict(mol="ch4",sp={'method':'PM3','scf_eps':1e-7,'scf_converger':[2]}),
 "sp_mndo_mix_fixed":dict(mol="mix",sp={'method':'MNDO','scf_eps':1e-6,'scf_converger':[0,0.3]}),
 "sp_am1_nh3_sp2":dict(mol="nh3",sp={'method':'AM1','scf_eps':1e-6,'scf_converger':[0,0.2],'sp2':[True,1e-6]}),
 "sp_pm6sp_h2co":dict(mol="h2co",sp={'method':'PM6_SP','scf_eps':1e-7,'scf_converger':[1]}),
 "uhf_am1_ch3":dict(mol="ch3",sp={'method':'AM1','scf_eps':1e-7,'scf_converger':[1],'UHF':True},mult=2),
 "cis_am1_h2co":dict(mol="h2co",sp={'method':'AM1','scf_eps':1e-8,'scf_converger':[1],'excited_states':{'n_states':3,'method':'cis'},'active_state':1,'analytical_gradient':[True]}),
 "rpa_am1_h2o":dict(mol="h2o",sp={'method':'AM1','scf_eps':1e-8,'scf_converger':[1],'excited_states':{'n_states':2,'method':'rpa'}}),
 "anal_am1_ch4":dict(mol="ch4",sp={'method':'AM1','scf_eps':1e-8,'scf_converger':[1],'analytical_gradient':[True]}),
 "grad1_am1_h2o":dict(mol="h2o",sp={'method':'AM1','scf_eps':1e-9,'scf_converger':[1],'scf_backward':1},kind="gapgrad"),
 "grad1_pm3_nh3_loose":dict(mol="nh3",sp={'method':'PM3','scf_eps':1e-4,'scf_converger':[1],'scf_backward':1},kind="gapgrad"),
 "grad2_am1_h2o":dict(mol="h2o",sp={'method':'AM1','scf_eps':1e-8,'scf_converger':[0,0.2],'scf_backward':2},kind="gapgrad"),
 "md_basic_h2o":dict(mol="h2o",sp={'method':'AM1','scf_eps':1e-7,'scf_converger':[1]},kind="md",eng="basic"),
 "md_xl_h2o":dict(mol="h2o",sp={'method':'AM1','scf_eps':1e-7,'scf_converger':[1]},kind="md",eng="xl"),
 "md_lang_mix":dict(mol="mix",sp={'method':'AM1','scf_eps':1e-7,'scf_converger':[1]},kind="md",eng="lang"),
 "fail_odd":dict(mol="ch3",sp={'method':'AM1','scf_eps':1e-7,'scf_converger':[1]},kind="fail"),
 "fail_uhf_pulay":dict(mol="ch3",sp={'method':'AM1','scf_eps':1e-7,'scf_converger':[2],'UHF':True},mult=2,kind="fail"),
}
import copy
def dg(*ts):
    h=hashlib.sha256()
    for t in ts: h.update(t.detach().contiguous().numpy().tobytes())
    return h.hexdigest()[:12]
def run_job(name, shared, scratch):
    j=JOBS[name]; kind=j.get("kind","sp")
    sp = shared["dict"].setdefault(name, copy.deepcopy(j["sp"])) if shared.get("reuse_dict") else copy.deepcopy(j["sp"])
    const = shared.setdefault("const", Constants()) if shared.get("reuse_const") else Constants()
    sp_, co = M[j["mol"]]
    mol=Molecule(const, sp, torch.tensor(co), torch.as_tensor(sp_,dtype=torch.int64), mult=j.get("mult",1)); mol.verbose=False
    with contextlib.redirect_stdout(io.StringIO()):
        if kind in ("sp","fail"):
            es = shared["drv"].setdefault(name, Electronic_Structure(sp)) if shared.get("reuse_drv") and name in shared["dict"] else Electronic_Structure(sp)
            es(mol); out=[mol.Etot, mol.force, mol.dm]
            if mol.cis_energies is not None: out.append(mol.cis_energies)
            return dg(*out)
        if kind=="gapgrad":
            en=Energy(sp); r=en(mol, all_terms=True); gap=r[6]; g,=torch.autograd.grad(gap.sum(), mol.coordinates); return dg(g, r[1])
        if kind=="md":
            pre=f"{scratch}/{name}"; out={"molid":[0],"prefix":pre,"print every":0,"checkpoint every":0,"xyz":0,"h5":{"data":1,"coordinates":1}}
            cls,kw={"basic":(MDm.Molecular_Dynamics_Basic,{}),"lang":(MDm.Molecular_Dynamics_Langevin,{"damp":20.0}),"xl":(MDm.XL_BOMD,{"xl_bomd_params":{"k":5}})}[j["eng"]]
            md=cls(seqm_parameters=sp,timestep=0.4,Temp=300.0,output=out,**kw); md.run(mol,steps=3,seed=11)
            return dg(mol.coordinates, mol.velocities, mol.Etot)
def child(fn):
    r,w=os.pipe(); pid=os.fork()
    if pid==0:
        os.close(r)
        try: out=fn()
        except BaseException as e: out=["EXC "+type(e).__name__+": "+str(e)[:70].replace("\n"," ")]
        os.write(w,json.dumps(out).encode()); os._exit(0)
    os.close(w); d=b""
    while True:
        c=os.read(r,65536)
        if not c: break
        d+=c
    os.waitpid(pid,0); return json.loads(d.decode())
S="/tmp/scratch/p20"; shutil.rmtree(S,ignore_errors=True); os.makedirs(S)
def one(name):
    def f():
        try: return [run_job(name,{"dict":{},"drv":{}},S)]
        except Exception as e: return ["EXC "+type(e).__name__+": "+str(e)[:70].replace("\n"," ")]
    return f
fresh={n:child(one(n))[0] for n in JOBS}
for n,v in fresh.items(): print("fresh",n,v)
rng=random.Random(int(sys.argv[1]) if len(sys.argv)>1 else 0); names=list(JOBS); nbad=0
for h in range(int(sys.argv[2]) if len(sys.argv)>2 else 40):
    hist=[rng.choice(names) for _ in range(rng.randint(2,5))]
    flags=dict(reuse_dict=rng.random()<0.5, reuse_const=rng.random()<0.5, reuse_drv=rng.random()<0.3)
    def f():
        shared=dict(flags); shared["dict"]={}; shared["drv"]={}; res=[]
        for n in hist:
            try: res.append(run_job(n,shared,S))
            except Exception as e: res.append("EXC "+type(e).__name__+": "+str(e)[:70].replace("\n"," "))
        return res
    res=child(f)
    for i,(n,r) in enumerate(zip(hist,res)):
        if r!=fresh[n]:
            nbad+=1; print("MISMATCH hist",hist,"flags",flags,"pos",i,n,"got",r,"fresh",fresh[n]); break
print("histories with mismatch:",nbad)
