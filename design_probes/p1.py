# P1: torn HDF5 flush -- kill (os._exit) at the Nth low-level HDF5 write, then reopen r+ and try writing like _open_resume does
import h5py, io, os, sys, numpy as np, shutil
class SimFile(io.RawIOBase):
    def __init__(self, path, mode, kill_at=None):
        flags = os.O_RDWR | (os.O_CREAT|os.O_TRUNC if mode=='w' else 0)
        self.fd=os.open(path, flags, 0o644); self.pos=0; self.n=0; self.kill_at=kill_at
    def readable(self): return True
    def writable(self): return True
    def seekable(self): return True
    def seek(self, off, whence=0):
        if whence==0: self.pos=off
        elif whence==1: self.pos+=off
        else: self.pos=os.fstat(self.fd).st_size+off
        return self.pos
    def tell(self): return self.pos
    def readinto(self, b):
        data=os.pread(self.fd, len(b), self.pos); n=len(data); b[:n]=data; self.pos+=n; return n
    def write(self, b):
        self.n+=1
        if self.kill_at is not None and self.n==self.kill_at: os._exit(137)
        n=os.pwrite(self.fd, bytes(b), self.pos); self.pos+=n; return n
    def truncate(self, size=None):
        self.n+=1
        if self.kill_at is not None and self.n==self.kill_at: os._exit(137)
        if size is None: size=self.pos
        os.ftruncate(self.fd,size); return size
    def flush(self): pass
def workload(path, kill_at):
    rng=np.random.default_rng(0)
    sf=SimFile(path,"w",kill_at)
    f=h5py.File(sf,"w")
    T=40
    for name in ("coordinates","velocities","forces"):
        g=f.create_group(name)
        g.create_dataset("steps",shape=(T,),dtype=np.int64,chunks=(1,),compression="gzip",compression_opts=4)
        g.create_dataset("values",shape=(T,3,3),dtype=np.float64,chunks=(1,3,3),compression="gzip",compression_opts=4)
    gd=f.create_group("data"); gd.create_dataset("steps",shape=(T,),dtype=np.int64,chunks=(1,),compression="gzip",compression_opts=4)
    gd.create_dataset("thermo/T",shape=(T,),dtype=np.float64,chunks=(1,),compression="gzip",compression_opts=4)
    i=0
    for ck in range(4):           # 4 checkpoints, 5 steps each, flush at each
        for s in range(5):
            for name in ("coordinates","velocities","forces"):
                f[name+"/steps"][i]=i; f[name+"/values"][i]=rng.random((3,3))
            gd["steps"][i]=i; gd["thermo/T"][i]=rng.random(); i+=1
        f.flush()
        open(path+".ck","w").write(str(i))   # "checkpoint" durable after flush
    f.close()
    return sf.n
mode=sys.argv[1]
if mode=="census":
    print(workload("/tmp/scratch/x.h5", None))
elif mode=="kill":
    workload("/tmp/scratch/x.h5", int(sys.argv[2]))
elif mode=="resume":
    ck=int(open("/tmp/scratch/x.h5.ck").read()) if os.path.exists("/tmp/scratch/x.h5.ck") else None
    try:
        f=h5py.File("/tmp/scratch/x.h5","r+")
        ok_rows=f["data/steps"][...]
        # overwrite rows from ck onward like a resumed run
        if ck is not None:
            for i in range(ck,20):
                for name in ("coordinates","velocities","forces"):
                    f[name+"/steps"][i]=i; f[name+"/values"][i]=np.ones((3,3))
                f["data/steps"][i]=i; f["data/thermo/T"][i]=1.0
        f.close()
        g=h5py.File("/tmp/scratch/x.h5","r"); s=g["data/steps"][...]; c=g["coordinates/values"][...]; g.close()
        print("OK ck",ck, "steps", s[:20].tolist()==list(range(20)) if ck is not None else None)
    except Exception as e:
        print("FAIL ck",ck, type(e).__name__, str(e)[:150])
