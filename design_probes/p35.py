# (e) C03: iteration cap knob -> flag semantics
import os, sys, warnings
import torch
torch.set_num_threads(1)
sys.path.insert(0,os.environ.get("VERIF_REPO","/repo"))
import seqm, seqm.seqm_functions.scf_loop as SL
from seqm.seqm_functions.constants import Constants
from seqm.Molecule import Molecule
from seqm.ElectronicStructure import Electronic_Structure
torch.set_default_dtype(torch.float64)
ch4=[[0.0,0.0,0.0],[0.63,0.63,0.63],[-0.63,-0.63,0.63],[-0.63,0.63,-0.63],[0.63,-0.63,-0.63]]
sp_=[[6,1,1,1,1],[8,1,1,0,0]]; co=[ch4,[[0.0,0.0,0.0],[0.96,0.0,0.0],[-0.24,0.93,0.0],[0,0,0],[0,0,0]]]
import io, contextlib
for cap in (1000,20,8,3,1):
    SL.MAX_ITER=cap
    for conv in ([0,0.3],[1],[2],[0,0.3,"sp2"]):
        sp2=[True,1e-6] if "sp2" in conv else [False]; c=[x for x in conv if x!="sp2"]
        sp={'method':'AM1','scf_eps':1e-8,'scf_converger':c,'sp2':sp2}
        mol=Molecule(Constants(),sp,torch.tensor(co),torch.as_tensor(sp_,dtype=torch.int64)); mol.verbose=False
        es=Electronic_Structure(sp)
        with warnings.catch_warnings(), contextlib.redirect_stdout(io.StringIO()):
            warnings.simplefilter("ignore")
            try: es(mol); P=mol.dm; idem=(P@P-2*P).abs().amax((1,2)); print(f"cap={cap} conv={conv}: notconverged={es.notconverged.tolist()} idem_err={['%.1e'%v for v in idem.tolist()]} finite={bool(torch.isfinite(mol.Etot).all())}",file=sys.stderr)
            except Exception as e: print(f"cap={cap} conv={conv}: EXC {type(e).__name__} {str(e)[:80]}",file=sys.stderr)
