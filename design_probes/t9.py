import torch, sys
torch.set_num_threads(1)
import seqm
from seqm.seqm_functions.constants import Constants
from seqm.Molecule import Molecule
from seqm.basics import Energy
torch.set_default_dtype(torch.float64)
const = Constants()
def mk(method, eps, species, coords):
    sp = {'method':method,'scf_eps':eps,'scf_converger':[1],'scf_backward':1}
    mol = Molecule(const, sp, coords.clone(), species); mol.verbose=False
    en = Energy(sp)
    return sp, mol, en
def fwd(mol,en):
    Hf, Etot, Eelec, Enuc, Eiso, EnucAB, e_gap, e, P, charge, notconv = en(mol, all_terms=True)
    return e_gap.sum()
def bwd(mol, loss):
    g, = torch.autograd.grad(loss, mol.coordinates)
    return g
sA = torch.as_tensor([[8,1,1]]); cA = torch.tensor([[[0.0,0.0,0.0],[0.96,0.0,0.0],[-0.24,0.93,0.0]]])
sB = torch.as_tensor([[6,1,1,1,1]]); cB = torch.tensor([[[0.0,0.0,0.0],[0.63,0.63,0.63],[-0.63,-0.63,0.63],[-0.63,0.63,-0.63],[0.63,-0.63,-0.63]]])
mode = sys.argv[1]
if mode=="fresh":
    _,mA,eA = mk('AM1',1e-10,sA,cA); g = bwd(mA, fwd(mA,eA)); print("fresh", g[0,0])
else:
    _,mA,eA = mk('AM1',1e-10,sA,cA); _,mB,eB = mk('PM3',1e-3,sB,cB)
    lA = fwd(mA,eA); lB = fwd(mB,eB)
    g = bwd(mA,lA); print("interleaved", g[0,0])
