import os, sys, types
import torch
torch.set_num_threads(1)
sys.path.insert(0,"/repo")
import seqm.MolecularDynamics as MDm
torch.set_default_dtype(torch.float64)
class StubES(torch.nn.Module):
    def __init__(s,*a,**k): super().__init__(); s.conservative_force=types.SimpleNamespace(energy=types.SimpleNamespace())
MDm.esdriver=StubES
g=torch.Generator().manual_seed(1)
for k in range(3,10):
    md=MDm.XL_BOMD(xl_bomd_params={"k":k},seqm_parameters={"method":"AM1"},timestep=0.5,Temp=0.0,output={"h5":{}})
    m=md.m
    print("k",k,"coeff sum + coeff_D =", (md.coeff[:m].sum()+md.coeff_D).item(), end="  ")
    res=[]
    for gamma in (-0.05,0.0,0.3,0.6,0.9,0.99):
        Dstar=torch.randn(1,4,4,generator=g); Dstar=Dstar+Dstar.transpose(1,2)
        P=Dstar+1e-3*torch.randn(1,4,4,generator=g); Pt=P.unsqueeze(0).expand((m,)+P.shape).clone()
        mol=types.SimpleNamespace(dm=None)
        amp0=(P-Dstar).norm().item(); mx=0
        for step in range(3000):
            mol.dm=Dstar+gamma*(P-Dstar)
            cindx=step%m
            P=md._propagate_P(P,Pt,cindx,mol); Pt[m-1-cindx]=P
            mx=max(mx,(P-Dstar).norm().item())
        res.append((gamma, round(mx/amp0,2), f"{(P-Dstar).norm().item()/amp0:.1e}"))
    print(res)
