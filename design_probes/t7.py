import sys, time, torch, io, contextlib, os, hashlib
torch.set_num_threads(1)
import seqm
from seqm.seqm_functions.constants import Constants
from seqm.Molecule import Molecule
from seqm.ElectronicStructure import Electronic_Structure
torch.set_default_dtype(torch.float64)
def job(nt):
    torch.set_num_threads(nt)
    species = torch.as_tensor([[6,6,6,6,6,6,1,1,1,1,1,1]],dtype=torch.int64)
    import math
    xs=[[1.39*math.cos(i*math.pi/3),1.39*math.sin(i*math.pi/3),0.0] for i in range(6)]+[[2.48*math.cos(i*math.pi/3),2.48*math.sin(i*math.pi/3),0.0] for i in range(6)]
    coords = torch.tensor([xs])
    const = Constants()
    sp = {'method':'AM1','scf_eps':1e-9,'scf_converger':[2]}
    mol = Molecule(const, sp, coords.clone(), species); mol.verbose=False
    es = Electronic_Structure(sp)
    t0=time.time(); es(mol); dt=time.time()-t0
    h=hashlib.sha256(mol.force.numpy().tobytes()+mol.Etot.numpy().tobytes()).hexdigest()[:16]
    return dt, mol.Etot.item(), h
for nt in (1,1,2,4,8,16):
    r,w=os.pipe()
    t0=time.time()
    pid=os.fork()
    if pid==0:
        os.close(r)
        out=repr(job(nt)).encode(); os.write(w,out); os._exit(0)
    os.close(w); data=os.read(r,10000); os.waitpid(pid,0); print(nt, data.decode(), "wall", round(time.time()-t0,3))
