# (g)+(h): seeded scenario with two crashes (hard@io, then hard@line in the resumed incarnation), digest of event logs + final files
import os, sys, io, contextlib, types, shutil, builtins, json, hashlib, random
import numpy as np, torch, h5py as real_h5py
torch.set_num_threads(1)
sys.path.insert(0,os.environ.get("VERIF_REPO","/repo"))
import seqm, seqm.MolecularDynamics as MDm
from seqm.seqm_functions.constants import Constants
from seqm.Molecule import Molecule
torch.set_default_dtype(torch.float64)
src=open("/tmp/scratch/p15b.py").read()
exec(src.split("species = torch.as_tensor")[0].split("torch.set_default_dtype(torch.float64)")[1])   # StubES, Sim, shims, patches
seed=int(sys.argv[1]); rng=random.Random(seed)
ENG=[("basic",MDm.Molecular_Dynamics_Basic,{}),("lang",MDm.Molecular_Dynamics_Langevin,{"damp":15.0}),("xl",MDm.XL_BOMD,{"xl_bomd_params":{"k":rng.randint(3,9)}}),("ksa",MDm.KSA_XL_BOMD,{"xl_bomd_params":{"k":rng.randint(3,9),"max_rank":2,"err_threshold":0.0,"T_el":1500}})]
name,cls,kw=rng.choice(ENG); steps=rng.randint(6,16); ck=rng.randint(1,5)
cad={k:rng.choice([0,1,2,3]) for k in ("data","coordinates","velocities","forces")}; xyz=rng.choice([0,1,2]); rc=rng.choice([None,("linear",2)])
species = torch.as_tensor([[8,1,1],[9,1,0]],dtype=torch.int64)
coords = torch.tensor([[[0.0,0.0,0.0],[0.96,0.0,0.0],[-0.24,0.93,0.0]],[[0.0,0.0,0.0],[1.1,0.0,0.0],[3.0,3.0,3.0]]])
sp={'method':'AM1','scf_eps':1e-8,'scf_converger':[1]}
line={"n":0,"kill":None}
def tracer(frame,event,arg):
    if frame.f_code.co_filename.endswith("MolecularDynamics.py"): return local
def local(frame,event,arg):
    if event=="line":
        line["n"]+=1
        if line["kill"] is not None and line["n"]==line["kill"]: os._exit(137)
    return local
def run(prefix,kill_io=None):
    Sim.n=0; Sim.kill_at=kill_io; Sim.log=[]
    out={"molid":[0,1],"prefix":prefix,"print every":0,"checkpoint every":ck,"xyz":xyz,"h5":dict(cad)}
    mol=Molecule(Constants(),dict(sp),coords.clone(),species)
    md=cls(seqm_parameters=dict(sp),timestep=0.5,Temp=300.0,output=out,**kw)
    with contextlib.redirect_stdout(io.StringIO()): md.run(mol,steps=steps,reuse_P=True,remove_com=rc,seed=seed)
def resume(path,kill_line=None):
    Sim.n=0; Sim.kill_at=None; Sim.log=[]; line["n"]=0; line["kill"]=kill_line
    sys.settrace(tracer)
    with contextlib.redirect_stdout(io.StringIO()): MDm.Molecular_Dynamics_Basic.run_from_checkpoint(path)
    sys.settrace(None)
def child(fn,*a):
    r,w=os.pipe(); pid=os.fork()
    if pid==0:
        os.close(r)
        try: fn(*a); code=0
        except BaseException as e: sys.stderr.write("child exc: %r\n"%(str(e)[:150],)); code=3
        os.write(w,json.dumps({"io":Sim.n,"lines":line["n"],"log":hashlib.sha256(repr([(k,d.split('@')[0] if k.startswith('h5') else '') for _,k,d in Sim.log]).encode()).hexdigest()}).encode()); os._exit(code)
    os.close(w); d=b""
    while True:
        c=os.read(r,65536)
        if not c: break
        d+=c
    st=os.waitpid(pid,0)[1]>>8
    return st,(json.loads(d.decode()) if d else None)
def dump(prefix):
    h=hashlib.sha256()
    for m in (0,1):
        p=f"{prefix}.{m}.h5"
        if os.path.exists(p):
            with real_h5py.File(p,"r") as f:
                items=[]; f.visititems(lambda n,o: items.append((n,o[...].tobytes())) if isinstance(o,real_h5py.Dataset) else None)
                for n,b in sorted(items): h.update(n.encode()); h.update(b)
        p=f"{prefix}.{m}.xyz"
        if os.path.exists(p): h.update(builtins.open(p,"rb").read())
    return h.hexdigest()[:16]
D=f"/tmp/scratch/p36_{seed}_{os.environ.get('PYTHONHASHSEED','x')}"; shutil.rmtree(D,ignore_errors=True); os.makedirs(D+"/ref"); os.makedirs(D+"/c")
st,census=child(run,D+"/ref/t"); ref=dump(D+"/ref/t")
k1=rng.randint(1,census["io"])
st1,i1=child(run,D+"/c/t",k1)
events=[("cfg",name,steps,ck,cad,xyz,rc),("census",census),("crash1",k1,st1)]
if os.path.exists(D+"/c/t.restart.pt"):
    st2,c2=child(resume,D+"/c/t.restart.pt"); # census of resumed incarnation (also completes it)
    # second scenario copy: crash the resumed incarnation at a line event, then resume again
    shutil.rmtree(D+"/c2",ignore_errors=True); shutil.copytree(D+"/c",D+"/c2")
    # redo from the post-crash1 state: need state before resume -> rerun crash1 in fresh dir
    shutil.rmtree(D+"/c3",ignore_errors=True); os.makedirs(D+"/c3"); child(run,D+"/c3/t",k1)
    if c2 and c2["lines"]>0:
        k2=rng.randint(1,c2["lines"]); st3,_=child(resume,D+"/c3/t.restart.pt",k2); st4,_=child(resume,D+"/c3/t.restart.pt")
        events.append(("crash2",k2,st3,"final-resume",st4,"equal_ref",dump(D+"/c3/t")==ref))
    events.append(("single-crash equal_ref",dump(D+"/c/t")==ref,"resume status",st2))
else: events.append(("vacuous",))
print(json.dumps({"seed":seed,"digest":hashlib.sha256(repr(events).encode()).hexdigest()[:16],"ref":ref,"events":events[2:]}))
shutil.rmtree(D,ignore_errors=True)
