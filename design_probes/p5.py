import os, sys, io, contextlib, itertools, types, shutil, random
import numpy as np, torch, h5py
torch.set_num_threads(1)
REPO=os.environ.get("VERIF_REPO","/repo"); sys.path.insert(0,REPO)
import seqm, seqm.MolecularDynamics as MDm
from seqm.seqm_functions.constants import Constants
from seqm.Molecule import Molecule
torch.set_default_dtype(torch.float64)
exec(open("/tmp/scratch/t8.py").read().split("MDm.esdriver = StubES")[0].split("class StubES")[1].join(["class StubES",""])) if False else None
src=open("/tmp/scratch/t8.py").read()
stub_src="class StubES"+src.split("class StubES")[1].split("MDm.esdriver = StubES")[0]
exec(stub_src)
MDm.esdriver=StubES
species = torch.as_tensor([[8,1,1],[1,1,0]],dtype=torch.int64)
coords = torch.tensor([[[0.0,0.0,0.0],[0.96,0.0,0.0],[-0.24,0.93,0.0]],[[0.0,0.0,0.0],[0.74,0.0,0.0],[0.0,0.0,0.0]]])
sp={'method':'AM1','scf_eps':1e-8,'scf_converger':[1]}
D="/tmp/scratch/p5"; shutil.rmtree(D,ignore_errors=True); os.makedirs(D)
def run(tag, steps, cad, xyz, pe, ck, molid=[0,1]):
    out={"molid":molid,"prefix":f"{D}/{tag}","print every":pe,"checkpoint every":ck,"xyz":xyz,"h5":dict(cad)}
    mol=Molecule(Constants(),dict(sp),coords.clone(),species)
    md=MDm.Molecular_Dynamics_Basic(seqm_parameters=dict(sp),timestep=0.5,Temp=300.0,output=out)
    buf=io.StringIO()
    with contextlib.redirect_stdout(buf): md.run(mol,steps=steps,reuse_P=True,remove_com=None,seed=1)
    return buf.getvalue()
rng=random.Random(0); bad=0
for trial in range(60):
    steps=rng.randint(1,25)
    cad={k:rng.choice([0,1,2,3,4,5,7,30]) for k in ("data","coordinates","velocities","forces")}
    xyz=rng.choice([0,1,2,3,5]); pe=rng.choice([0,1,2,3]); ck=rng.choice([0,1,2,4,5])
    shutil.rmtree(D,ignore_errors=True); os.makedirs(D)
    try:
        so=run("t",steps,cad,xyz,pe,ck)
    except Exception as e:
        print("EXC",steps,cad,xyz,pe,ck,repr(e)[:200]); bad+=1; continue
    run("dense",steps,{k:1 for k in cad},1,1,0)
    anyh5 = any(cad.values())
    for m in (0,1):
        if not anyh5:
            if os.path.exists(f"{D}/t.{m}.h5"): print("unexpected h5"); 
            continue
        with h5py.File(f"{D}/t.{m}.h5") as f, h5py.File(f"{D}/dense.{m}.h5") as g:
            for k,c in cad.items():
                grp = k
                exp=[0]+[s for s in range(1,steps+1) if c and s%c==0] if c else None
                if c==0:
                    if grp in f: print("GROUP PRESENT though cadence 0",k,cad); bad+=1
                    continue
                got=f[grp+"/steps"][...].tolist()
                if got!=exp: print("STEPS MISMATCH",k,steps,cad,got,exp); bad+=1; continue
                if k!="data":
                    if not np.array_equal(f[grp+"/values"][...], g[grp+"/values"][...][exp]): print("VALUES MISMATCH",k); bad+=1
                else:
                    for sub in ("thermo/T","thermo/Ek","thermo/Ep"):
                        if not np.array_equal(f["data/"+sub][...], g["data/"+sub][...][exp]): print("DATA MISMATCH",sub); bad+=1
        if xyz:
            lab=[int(l.split()[1]) for l in open(f"{D}/t.{m}.xyz") if l.startswith("step:")]
            exp=[0]+[s for s in range(1,steps+1) if s%xyz==0]
            if lab!=exp: print("XYZ MISMATCH",steps,xyz,lab,exp); bad+=1
        else:
            if os.path.exists(f"{D}/t.{m}.xyz"): print("xyz present though 0"); bad+=1
    # screen
    printed=[int(l.split()[0]) for l in so.splitlines() if l[:6].strip().isdigit()]
    exp=[s for s in range(1,steps+1) if pe and s%pe==0]
    if printed!=exp: print("SCREEN MISMATCH",steps,pe,printed,exp); bad+=1
    ncp=so.count("Saved checkpoint"); expc=len([s for s in range(1,steps+1) if ck and s%ck==0])
    if ncp!=expc: print("CKPT MISMATCH",ncp,expc); bad+=1
print("bad",bad)
