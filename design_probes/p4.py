import os, sys, itertools
import torch
torch.set_num_threads(1)
sys.path.insert(0,"/repo")
import seqm
from seqm.seqm_functions.constants import Constants
from seqm.Molecule import Molecule
from seqm.ElectronicStructure import Electronic_Structure
torch.set_default_dtype(torch.float64)
mols={"h2o":([[8,1,1]],[[[0.0,0.0,0.0],[0.96,0.0,0.0],[-0.24,0.93,0.0]]]),
      "h2co":([[8,6,1,1]],[[[0.0,0,0],[1.22,0,0],[1.82,0.94,0],[1.82,-0.94,0]]]),
      "nh3":([[7,1,1,1]],[[[0.0,0,0.1],[0.94,0,-0.27],[-0.47,0.81,-0.27],[-0.47,-0.81,-0.27]]])}
def solve(m,conv,eps,sp2=[False],uhf=False,P0=None,method="AM1"):
    sp={'method':method,'scf_eps':eps,'scf_converger':conv,'sp2':sp2,'UHF':uhf}
    mol=Molecule(Constants(),sp,torch.tensor(m[1]),torch.as_tensor(m[0],dtype=torch.int64)); mol.verbose=False
    es=Electronic_Structure(sp); es(mol,P0=P0); return mol,es
for name,m in mols.items():
    ref,_=solve(m,[2],1e-11)
    for eps in (1e-4,1e-6,1e-8):
        row=[]
        for conv,sp2,uhf in (([0,0.0],[False],False),([0,0.3],[False],False),([0,0.7],[False],False),([1],[False],False),([2],[False],False),([0,0.3],[True,1e-5],False),([1],[True,1e-7],False),([1],[False],True),([0,0.3],[False],True)):
            try:
                mol,es=solve(m,conv,eps,sp2,uhf)
                dE=abs((mol.Etot-ref.Etot).item()); dF=(mol.force-ref.force).abs().max().item()
                row.append(f"{dE/eps:.1e}/{dF/eps:.1e}{'!' if es.notconverged.any() else ''}")
            except Exception as e: row.append("EXC:"+type(e).__name__)
        print(name,eps,"dE/eps / dF/eps:",row)
