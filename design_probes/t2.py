import time, torch, os, sys, io, contextlib
t0=time.time()
import seqm
from seqm.seqm_functions.constants import Constants
from seqm.Molecule import Molecule
from seqm.MolecularDynamics import Molecular_Dynamics_Basic, Molecular_Dynamics_Langevin, XL_BOMD, KSA_XL_BOMD
print("import", time.time()-t0)
torch.set_default_dtype(torch.float64)
torch.set_num_threads(1)
species = torch.as_tensor([[8,1,1]],dtype=torch.int64)
coords = torch.tensor([[[0.0,0.0,0.0],[0.96,0.0,0.0],[-0.24,0.93,0.0]]])
const = Constants()
sp = {'method':'AM1','scf_eps':1e-8,'scf_converger':[1]}
out = {"molid":[0],"prefix":"/tmp/scratch/run1","print every":0,"checkpoint every":2,"xyz":1,"h5":{"data":1,"coordinates":2,"velocities":3,"forces":5}}
mol = Molecule(const, sp, coords.clone(), species)
md = Molecular_Dynamics_Basic(seqm_parameters=sp, timestep=0.5, Temp=300.0, output=out)
t0=time.time()
with contextlib.redirect_stdout(io.StringIO()):
    md.run(mol, steps=12, reuse_P=True, remove_com=None, seed=0)
print("12 steps", time.time()-t0)
import h5py
with h5py.File("/tmp/scratch/run1.0.h5") as f:
    for k in ("data","coordinates","velocities","forces"):
        print(k, f[k+"/steps"][...])
    print(f["velocities/values"][...][:, 0, 0])
