import os, sys
import torch
torch.set_num_threads(1)
sys.path.insert(0,"/repo")
import seqm
from seqm.seqm_functions.constants import Constants
from seqm.Molecule import Molecule
from seqm.ElectronicStructure import Electronic_Structure
torch.set_default_dtype(torch.float64)
ch4=([[6,1,1,1,1]],[[[0.0,0.0,0.0],[0.63,0.63,0.63],[-0.63,-0.63,0.63],[-0.63,0.63,-0.63],[0.63,-0.63,-0.63]]])
h2o=([[8,1,1]],[[[0.0,0.0,0.0],[0.96,0.0,0.0],[-0.24,0.93,0.0]]])
nh3=([[7,1,1,1]],[[[0.0,0,0.1],[0.94,0,-0.27],[-0.47,0.81,-0.27],[-0.47,-0.81,-0.27]]])
def job(sp,m,es=None,const=None):
    mol=Molecule(const or Constants(),sp,torch.tensor(m[1]),torch.as_tensor(m[0],dtype=torch.int64)); mol.verbose=False
    es=es or Electronic_Structure(sp); es(mol); return mol.Etot.item(), mol.force.abs().max().item()
base=lambda: {'method':'AM1','scf_eps':1e-8,'scf_converger':[1]}
print("fresh ch4", job(base(),ch4)); print("fresh h2o", job(base(),h2o)); print("fresh nh3", job(base(),nh3))
d=base(); print("dict: h2o first", job(d,h2o), "elements", d["elements"])
for name,m in (("nh3",nh3),("ch4",ch4)):
    try: print(" then",name, job(d,m))
    except Exception as e: print(" then",name,"EXC",repr(e)[:120])
d=base(); print("dict: ch4 first", job(d,ch4), "elements", d["elements"])
try: print(" then h2o", job(d,h2o))
except Exception as e: print(" then h2o EXC",repr(e)[:120])
# driver reuse across molecules with same dict having all elements
d=base(); d["elements"]=[0,1,6,7,8]; es=Electronic_Structure(d)
print("shared driver:", job(d,ch4,es), job(d,h2o,es), job(d,nh3,es), job(d,ch4,es))
