# U5: abort a job at the Nth seqm line event, then run another job; compare with fresh
import os, sys, hashlib
import torch
torch.set_num_threads(1)
sys.path.insert(0,"/repo")
import seqm
from seqm.seqm_functions.constants import Constants
from seqm.Molecule import Molecule
from seqm.ElectronicStructure import Electronic_Structure
torch.set_default_dtype(torch.float64)
class Abort(BaseException): pass
st={"n":None,"c":0}
def tracer(frame,event,arg):
    if "/repo/seqm/" in frame.f_code.co_filename and st["n"] is not None:
        st["c"]+=1
        if st["c"]==st["n"]: st["n"]=None; raise Abort(f"{os.path.basename(frame.f_code.co_filename)}:{frame.f_code.co_name}")
    return None
def local(frame,event,arg):
    if event=="line" and st["n"] is not None:
        st["c"]+=1
        if st["c"]==st["n"]: st["n"]=None; raise Abort(f"{os.path.basename(frame.f_code.co_filename)}:{frame.f_lineno}")
    return local
h2o=([[8,1,1]],[[[0.0,0.0,0.0],[0.96,0.0,0.0],[-0.24,0.93,0.0]]])
ch4=([[6,1,1,1,1]],[[[0.0,0.0,0.0],[0.63,0.63,0.63],[-0.63,-0.63,0.63],[-0.63,0.63,-0.63],[0.63,-0.63,-0.63]]])
def job(m,method,conv,eps,abort_at=None,uhf=False):
    sp={'method':method,'scf_eps':eps,'scf_converger':conv,'UHF':uhf}
    mol=Molecule(Constants(),sp,torch.tensor(m[1]),torch.as_tensor(m[0],dtype=torch.int64)); mol.verbose=False
    es=Electronic_Structure(sp)
    st["n"]=abort_at; st["c"]=0
    es(mol); st["n"]=None
    return hashlib.sha256(mol.force.numpy().tobytes()+mol.Etot.numpy().tobytes()+mol.dm.numpy().tobytes()).hexdigest()[:12]
def child(fn):
    r,w=os.pipe(); pid=os.fork()
    if pid==0:
        os.close(r); sys.settrace(tracer)
        try: out=fn()
        except BaseException as e: out="EXC "+repr(e)[:80]
        os.write(w,str(out).encode()); os._exit(0)
    os.close(w); d=os.read(r,4096).decode(); os.waitpid(pid,0); return d
fresh=child(lambda: job(ch4,"AM1",[2],1e-9)); print("fresh target:",fresh)
import random; rng=random.Random(1); bad=0
for t in range(120):
    n=rng.randint(1,260)
    def hist():
        try: job(h2o,"PM3",[1],1e-5,abort_at=n)
        except Abort as a: pass
        return job(ch4,"AM1",[2],1e-9)
    r=child(hist)
    if r!=fresh: bad+=1; print("MISMATCH after abort at",n,r)
print("histories with mismatch:",bad,"/120")
