import torch, sys, io, contextlib
torch.set_num_threads(1)
import seqm
from seqm.seqm_functions.constants import Constants
from seqm.Molecule import Molecule
from seqm.ElectronicStructure import Electronic_Structure
torch.set_default_dtype(torch.float64)
const = Constants()
sp = {'method':'AM1','scf_eps':1e-10,'scf_converger':[1]}
s = torch.as_tensor([[8,1,1]]); c = torch.tensor([[[0.0,0.0,0.0],[0.96,0.0,0.0],[-0.24,0.93,0.0]]])
mol = Molecule(const, sp, c.clone(), s); mol.verbose=False
es = Electronic_Structure(sp)
es(mol); E0=mol.Etot.clone(); F0=mol.force.clone(); D=mol.dm.clone()
es(mol, P0=D, dm_prop="XL-BOMD", xl_bomd_params={"k":5})
print("dE", (mol.Etot-E0).item(), "dF", (mol.force-F0).abs().max().item(), "dD", (mol.dm-D).abs().max().item())
es(mol, P0=D, dm_prop="XL-BOMD", xl_bomd_params={"k":5,"max_rank":2,"err_threshold":0.0,"T_el":300})
print("KSA dE", (mol.Etot-E0).item(), "dF", (mol.force-F0).abs().max().item(), "dD", (mol.dm-D).abs().max().item(), mol.Electronic_entropy)
