# R7: magnitude of SCF self-consistency residuals relative to eps, for calibration of the C03 bounds
import os, sys, random
import torch
torch.set_num_threads(1)
sys.path.insert(0,os.environ.get("VERIF_REPO","/repo"))
import seqm
from seqm.seqm_functions.constants import Constants
from seqm.Molecule import Molecule
from seqm.ElectronicStructure import Electronic_Structure
from seqm.seqm_functions.fock import fock
from seqm.seqm_functions.hcore import hcore
from seqm.seqm_functions.diag import sym_eig_trunc
from seqm.seqm_functions.energy import elec_energy
torch.set_default_dtype(torch.float64)
ch4=[[0.0,0.0,0.0],[0.63,0.63,0.63],[-0.63,-0.63,0.63],[-0.63,0.63,-0.63],[0.63,-0.63,-0.63]]
POOL={"h2o":([[8,1,1]],[[[0.0,0.0,0.0],[0.96,0.0,0.0],[-0.24,0.93,0.0]]],[0.0]),
      "mix":([[6,1,1,1,1],[8,1,1,0,0]],[ch4,[[0.0,0.0,0.0],[0.96,0.0,0.0],[-0.24,0.93,0.0],[0,0,0],[0,0,0]]],[0.0,0.0]),
      "ions":([[7,1,1,1,1],[8,1,0,0,0]],[[[0.0,0,0],[0.6,0.6,0.6],[-0.6,-0.6,0.6],[-0.6,0.6,-0.6],[0.6,-0.6,-0.6]],[[0.0,0,0],[0.97,0,0],[0,0,0],[0,0,0],[0,0,0]]],[1.0,-1.0]),
      "h2co":([[8,6,1,1]],[[[0.0,0,0],[1.22,0,0],[1.82,0.94,0],[1.82,-0.94,0]]],[0.0])}
def residuals(mol):
    m=mol; P=m.dm
    M,w,*_=hcore(m); p=m.parameters
    F=fock(m.nmol,m.molsize,P,M,m.maskd,m.mask,m.idxi,m.idxj,w,torch.tensor([0]),p["g_ss"],p["g_pp"],p["g_sp"],p["g_p2"],p["h_sp"],m.method,p["s_orb_exp_tail"],p["p_orb_exp_tail"],p["d_orb_exp_tail"],m.Z,p["F0SD"],p["G2SD"])
    Hc=M.reshape(m.nmol,m.molsize,m.molsize,4,4).transpose(2,3).reshape(m.nmol,4*m.molsize,4*m.molsize)
    sym=(P-P.transpose(1,2)).abs().amax((1,2))
    tr=(torch.diagonal(P,dim1=1,dim2=2).sum(1)-2*m.nocc).abs()
    idem=(P@P-2*P).abs().amax((1,2))
    comm=(F@P-P@F).abs().amax((1,2))
    e,Pn,_=sym_eig_trunc(F,m.nHeavy,m.nHydro,m.nocc)
    red=(Pn-P).abs().amax((1,2))
    Ee=(elec_energy(P,F,Hc)-m.Eelec).abs()
    return dict(sym=sym,tr=tr,idem=idem,comm=comm,rediag=red,Eelec=Ee)
rng=random.Random(0); g=torch.Generator().manual_seed(0); worst={}
for trial in range(int(sys.argv[1]) if len(sys.argv)>1 else 30):
    name=rng.choice(list(POOL)); sp_,co,ch=POOL[name]
    conv=rng.choice([[0,0.0],[0,0.3],[0,0.6],[1],[2]]); sp2=rng.choice([[False],[False],[True,1e-5],[True,1e-7]]); eps=rng.choice([1e-4,1e-6,1e-8,1e-10])
    if name=="ions" and sp2[0]: sp2=[False]
    sp={'method':rng.choice(['AM1','PM3','MNDO']),'scf_eps':eps,'scf_converger':conv,'sp2':sp2}
    mol=Molecule(Constants(),sp,torch.tensor(co),torch.as_tensor(sp_,dtype=torch.int64),charges=torch.tensor(ch)); mol.verbose=False
    es=Electronic_Structure(sp); P0=None
    for step in range(3):
        es(mol,P0=P0)
        r=residuals(mol); conv_ok=~es.notconverged
        alpha=conv[1] if conv[0]==0 else 0.0
        tau=max(eps,(sp2[1]*1e-1 if sp2[0] else 0))/(1-alpha)
        for k,v in r.items():
            x=(v[conv_ok]/tau).max().item() if conv_ok.any() else 0
            key=(k,"sp2" if sp2[0] else "diag")
            if x>worst.get(key,(0,))[0]: worst[key]=(x,name,conv,sp2,eps)
        P0=mol.dm+ (1e-3*torch.randn(mol.dm.shape,generator=g)).triu().pipe(lambda a:a+a.transpose(1,2)) if hasattr(torch.Tensor,"pipe") else mol.dm
        with torch.no_grad(): mol.coordinates.add_(0.02*torch.randn(mol.coordinates.shape,generator=g)*(mol.species>0).unsqueeze(-1))
for k,v in sorted(worst.items()): print(k,f"{v[0]:.2e}",v[1:])
