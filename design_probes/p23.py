import os, sys, io, contextlib
import torch
torch.set_num_threads(1)
sys.path.insert(0,"/repo")
from scripts.tully_surface_hopping.TullyModels import TullyFSSH, TullyModel, TullyMolecule
torch.set_default_dtype(torch.float64)
model=TullyModel.single_crossing()
# isolation: trajectory 0 alone vs in a batch with a mate that starts on the other state
def run(x0,v0,init,steps=3):
    dyn=TullyFSSH(model,timestep=0.05); mol=TullyMolecule(x0=torch.tensor(x0),v0=torch.tensor(v0),mass=2000.0)
    dyn.initial_state=torch.tensor(init)
    torch.manual_seed(0)
    with contextlib.redirect_stdout(io.StringIO()): dyn.run(mol,steps=steps,reuse_P=True,remove_com=None)
    return mol.coordinates[:,0,0].clone(), mol.velocities[:,0,0].clone(), mol.force[:,0,0].clone()
a=run([-1.0],[0.02],[1]); b=run([-1.0,-1.0],[0.02,0.02],[1,2]); c=run([-1.0,-1.0],[0.02,0.02],[2,1])
print("alone (state1):      x,v,F",[t[0].item() for t in a])
print("batch [1,2] traj 0:  x,v,F",[t[0].item() for t in b])
print("batch [2,1] traj 1:  x,v,F",[t[1].item() for t in c])
# perpendicular rescale
from seqm.NonadiabaticDynamics import SurfaceHoppingDynamics
from seqm.MolecularDynamics import CONSTANTS
from types import SimpleNamespace
class D(SurfaceHoppingDynamics):
    def __init__(s): pass
d=D()
mol=SimpleNamespace(velocities=torch.tensor([[[0.0,0.01,0.0]]]),mass_inverse=torch.ones(1,1,1))
ke0=0.5*(mol.velocities**2).sum()*CONSTANTS.KINETIC_ENERGY_SCALE
ok=d._rescale_velocity_along_nac({(0,1):torch.tensor([[[1.0,0.0,0.0]]])},1,0,mol,-0.1,mol_index=0)
ke1=0.5*(mol.velocities**2).sum()*CONSTANTS.KINETIC_ENERGY_SCALE
print("perp downward hop dE=-0.1: accepted",ok,"dKE",(ke1-ke0).item(),"(should be +0.1)")
