import os, sys, io, contextlib, shutil
import numpy as np, torch, h5py
torch.set_num_threads(1)
sys.path.insert(0,"/repo")
import seqm, seqm.MolecularDynamics as MDm
from seqm.seqm_functions.constants import Constants
from seqm.Molecule import Molecule
torch.set_default_dtype(torch.float64)
species = torch.as_tensor([[8,1,1]],dtype=torch.int64)
coords = torch.tensor([[[0.0,0.0,0.0],[0.96,0.0,0.0],[-0.24,0.93,0.0]]])
import math
def rot(x,ax,ang):
    c,s=math.cos(ang),math.sin(ang); R={"z":[[c,-s,0],[s,c,0],[0,0,1]],"y":[[c,0,s],[0,1,0],[-s,0,c]]}[ax]; return x@torch.tensor(R).T
coords=rot(rot(coords,"z",0.7),"y",0.4)
D="/tmp/scratch/p29r"
def run(dt,steps):
    shutil.rmtree(D,ignore_errors=True); os.makedirs(D)
    sp={'method':'AM1','scf_eps':1e-11,'scf_converger':[2]}
    out={"molid":[0],"prefix":f"{D}/t","print every":0,"checkpoint every":0,"xyz":0,"h5":{"data":1,"coordinates":1,"velocities":1}}
    mol=Molecule(Constants(),sp,coords.clone(),species)
    md=MDm.Molecular_Dynamics_Basic(seqm_parameters=sp,timestep=dt,Temp=400.0,output=out)
    with contextlib.redirect_stdout(io.StringIO()): md.run(mol,steps=steps,reuse_P=True,remove_com=None,seed=2)
    with h5py.File(f"{D}/t.0.h5") as f: return f["data/thermo/Ek"][...],f["data/thermo/Ep"][...], f["coordinates/values"][...], f["velocities/values"][...]
res={}
for dt in (0.4,0.2,0.1,0.05,0.025):
    n=int(round(1.6/dt)); res[dt]=run(dt,n)
    Ek,Ep,X,V=res[dt]; print(f"dt={dt}: E0={Ek[0]+Ep[0]:.10f} Ek0={Ek[0]:.8f}  E(1.6)-E0={(Ek[-1]+Ep[-1]-Ek[0]-Ep[0]):.4e}  dEk={Ek[-1]-Ek[0]:.5f} dEp={Ep[-1]-Ep[0]:.5f}")
ref=res[0.025]
for dt in (0.4,0.2,0.1,0.05):
    print(f"dt={dt}: |x-x_ref|={np.abs(res[dt][2][-1]-ref[2][-1]).max():.3e} |v-v_ref|={np.abs(res[dt][3][-1]-ref[3][-1]).max():.3e}")
