import os, sys, time, types
import torch
torch.set_num_threads(1)
sys.path.insert(0,"/repo")
import seqm
from seqm.seqm_functions.constants import Constants
from seqm.Molecule import Molecule
from seqm.ElectronicStructure import Electronic_Structure
import seqm.seqm_functions.rcis_batch as RB
torch.set_default_dtype(torch.float64)
species = torch.as_tensor([[8,6,1,1]],dtype=torch.int64)
coords = torch.tensor([[[0.0,0,0],[1.22,0,0],[1.82,0.94,0],[1.82,-0.94,0]]])
class PsShim:
    def __init__(self, avail): self.avail=avail
    def virtual_memory(self): return types.SimpleNamespace(available=self.avail)
def solve(nst, avail=None, method="cis"):
    sp={'method':'AM1','scf_eps':1e-9,'scf_converger':[1],"excited_states":{"n_states":nst,"method":method,"tolerance":1e-7}}
    mol=Molecule(Constants(),sp,coords.clone(),species); mol.verbose=False
    es=Electronic_Structure(sp)
    if avail is not None: RB.psutil=PsShim(avail)
    else:
        import psutil; RB.psutil=psutil
    es(mol)
    return mol
mol=solve(5)
print("davidson", mol.cis_energies[0].tolist())
# dense A via sigma probing
nocc,nvirt,Cocc,Cvirt,ea_ei=RB.get_occ_virt(mol,None,mol.e_mo)
nov=nocc*nvirt
V=torch.eye(nov).unsqueeze(0)
AV=RB.matrix_vector_product_batched(mol,V,mol.w,ea_ei,Cocc,Cvirt)
A=AV[0]; print("nov",nov,"asym",(A-A.T).abs().max().item())
ev,evec=torch.linalg.eigh(0.5*(A+A.T)); print("dense   ", ev[:5].tolist())
amp=mol.cis_amplitudes[0]  # (nroots,nov)
print("orthonormal err",(amp@amp.T-torch.eye(amp.shape[0])).abs().max().item(), "residual", (amp@A - mol.cis_energies[0][:amp.shape[0]].unsqueeze(1)*amp).norm(dim=1).tolist())
for avail in (10**9, 10**5, 3000, 1500, 800, 400):
    try:
        m2=solve(5,avail); print("avail",avail,"maxsub",RB.getMaxSubspacesize(torch.float64,torch.device('cpu'),nov), "dE",(m2.cis_energies[0][:5]-ev[:5]).abs().max().item())
    except Exception as e:
        print("avail",avail,"EXC",repr(e)[:160])
