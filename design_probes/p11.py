import os, sys, math
import torch
torch.set_num_threads(1)
sys.path.insert(0,"/repo")
from seqm.NonadiabaticDynamics import NonadiabaticDynamicsBase, SurfaceHoppingDynamics
torch.set_default_dtype(torch.float64)
class D(SurfaceHoppingDynamics):
    def __init__(self): pass
def mk(nmol,ns,dt,sub):
    d=D(); d.timestep=dt; d.damp=None; d._electronic_substeps=sub; d._nstates=ns
    d._amp_phase=torch.zeros((nmol,ns,3)); d._amp_phase[:,0,0]=1.0
    d._current_potential=None; d._hop_integral=None; d._detect_crossings_flag=True
    d._eye_cache={}; d._arange_cache={}; d._perm_cost_buffers={}; d._trivial_zero_buffers={}; d._trivial_swap_buffers={}
    d._active_states=torch.zeros((nmol,),dtype=torch.long); d.post_hop_holdoff=torch.zeros((nmol,),dtype=torch.long); d.prev_state=torch.full((nmol,),-1,dtype=torch.long)
    d._decohere_on_hop=False; d._trivial_crossing_mask=None; d.hop_log=[]
    return d
g=torch.Generator().manual_seed(0)
for ns in (2,4,8):
  for dt in (0.05,0.5):
    for mag in (0.01,1.0,30.0):
      for sub in (None,):
        d=mk(3,ns,dt,sub)
        E=torch.sort(torch.rand(3,ns,generator=g)*3)[0]
        worst=0; 
        A=torch.randn(3,ns,ns,generator=g)*mag; old=(A-A.transpose(1,2))/2
        for step in range(50):
            A=torch.randn(3,ns,ns,generator=g)*mag; new=0.7*old+0.3*(A-A.transpose(1,2))/2
            E2=E+0.01*torch.randn(3,ns,generator=g)
            d._propagate_electronic({"energies":E,"nac_dot":old},{"energies":E2,"nac_dot":new},substeps=sub)
            E=E2; old=new
            worst=max(worst,(d.populations.sum(1)-1).abs().max().item())
            # hop prob
            act=d._active_states; pop=d.populations
            grow=(d._hop_integral[torch.arange(3),act]/pop[torch.arange(3),act].clamp(min=1e-10).unsqueeze(1)).clamp(min=0)
        print(f"ns={ns} dt={dt} mag={mag}: norm err after 50 steps {worst:.2e}  max g_row_sum {grow.sum(1).max().item():.3f}")
