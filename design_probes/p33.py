# (c) C17 L1: reference-model checks on the real hop logic with synthetic inputs
import os, sys, math, random
from types import SimpleNamespace
import torch
torch.set_num_threads(1)
sys.path.insert(0,os.environ.get("VERIF_REPO","/repo"))
import seqm.NonadiabaticDynamics as NDm
from seqm.MolecularDynamics import CONSTANTS
torch.set_default_dtype(torch.float64)
class TorchProxy:
    forced=None; last=None
    def __getattr__(self,k): return getattr(torch,k)
    def rand(self,*a,**k):
        r=torch.rand(*a,**k)
        if TorchProxy.forced is not None: r=TorchProxy.forced.clone()
        TorchProxy.last=r.clone(); return r
NDm.torch=TorchProxy()
class D(NDm.SurfaceHoppingDynamics):
    def __init__(s): pass
def mk(nmol,ns,decohere):
    d=D(); d.timestep=0.1; d.damp=None; d._electronic_substeps=None; d._nstates=ns
    d._amp_phase=torch.zeros((nmol,ns,3)); d._current_potential=None; d._hop_integral=None; d._detect_crossings_flag=True
    d._eye_cache={}; d._arange_cache={}; d._perm_cost_buffers={}; d._trivial_zero_buffers={}; d._trivial_swap_buffers={}
    d._active_states=torch.zeros((nmol,),dtype=torch.long); d.post_hop_holdoff=torch.zeros((nmol,),dtype=torch.long); d.prev_state=torch.full((nmol,),-1,dtype=torch.long)
    d._decohere_on_hop=decohere; d._trivial_crossing_mask=None; d.hop_log=[]; d.step_offset=0
    return d
rng=random.Random(0); g=torch.Generator().manual_seed(0)
stats=dict(trials=0,hop_sel_mismatch=0,accepted=0,frustrated=0,econs_bad=0,dir_bad=0,root_bad=0,frust_touched=0,gsum_gt1=0)
for trial in range(3000):
    nmol=rng.randint(1,4); ns=rng.randint(2,8); natom=rng.randint(1,4); d=mk(nmol,ns,rng.random()<0.5)
    amp=torch.randn(nmol,ns,2,generator=g); amp/=amp.pow(2).sum((1,2),keepdim=True).sqrt(); d._amp_phase[...,0]=amp[...,0]; d._amp_phase[...,1]=amp[...,1]; d._amp_phase[...,2]=torch.rand(nmol,ns,generator=g)*6.28-3.14
    d._active_states=torch.randint(0,ns,(nmol,),generator=g)
    A=torch.randn(nmol,ns,ns,generator=g)*10**rng.uniform(-2,1); H=(A-A.transpose(1,2)); d._hop_integral=H*(1-torch.eye(ns))
    E=torch.sort(torch.rand(nmol,ns,generator=g)*10**rng.uniform(-3,0.7))[0]
    mass=torch.rand(nmol,natom,1,generator=g)*15+1
    mol=SimpleNamespace(coordinates=torch.zeros(nmol,natom,3),velocities=0.02*torch.randn(nmol,natom,3,generator=g),force=torch.zeros(nmol,natom,3),mass_inverse=1.0/mass,mass=mass,Etot=E[torch.arange(nmol),d._active_states].clone(),w=None)
    nacvec={}
    def nacr(molecule,pairs,_n=nacvec):
        for (a,b) in pairs: _n[(a-1,b-1)]=torch.randn(nmol,natom,3,generator=g)
        return _n
    d._compute_NACR_for_hop=nacr; d._recompute_active_force=lambda m: None
    # reference hop selection
    ar=torch.arange(nmol); pop=d.populations; act0=d._active_states.clone()
    grow=(d._hop_integral[ar,act0]/pop[ar,act0].clamp(min=1e-10).unsqueeze(1)).clamp(min=0)
    gs=grow.sum(1,keepdim=True); stats["gsum_gt1"]+=int((gs>1).any())
    grow=torch.where(gs>1,grow/gs.clamp(min=1e-12),grow)
    r=torch.rand(nmol,generator=g)*(0.3 if rng.random()<0.5 else 1.0); TorchProxy.forced=r
    cs=torch.cumsum(grow,1); ref_t=torch.full((nmol,),-1,dtype=torch.long)
    for m in range(nmol):
        idx=(cs[m]>=r[m]).nonzero()
        if len(idx): ref_t[m]=idx[0,0]
    v0=mol.velocities.clone(); ampp0=d._amp_phase.clone(); ke0=0.5*(mass*v0**2).sum((1,2))*CONSTANTS.KINETIC_ENERGY_SCALE
    d._after_electronic_update(mol,excitation_energies=E,step=0)
    stats["trials"]+=1
    ke1=0.5*(mass*mol.velocities**2).sum((1,2))*CONSTANTS.KINETIC_ENERGY_SCALE
    ev={e.mol_index:e for e in d.hop_log}
    for m in range(nmol):
        t=int(ref_t[m]); e=ev.get(m)
        if (t>=0)!=(e is not None) or (e is not None and e.to_state!=t): stats["hop_sel_mismatch"]+=1; continue
        if e is None:
            if not torch.equal(mol.velocities[m],v0[m]): stats["frust_touched"]+=1
            continue
        i,j=int(act0[m]),t; dE=(E[m,j]-E[m,i]).item(); key=(i,j) if i<j else (j,i); dv=nacvec[key][m]*(1 if i<j else -1)
        if e.accepted:
            stats["accepted"]+=1
            if abs((ke1[m]-ke0[m]).item()+dE)>1e-10*max(1,abs(dE)): stats["econs_bad"]+=1
            delta=(mol.velocities[m]-v0[m]); par=dv/mass[m]; alpha=(delta*par).sum()/(par*par).sum()
            if (delta-alpha*par).abs().max()>1e-12*(delta.abs().max()+1e-30): stats["dir_bad"]+=1
            d2=(dv*dv/mass[m]).sum(); vd=(v0[m]*dv).sum(); rad=vd*vd-2*(dE/CONSTANTS.KINETIC_ENERGY_SCALE)*d2
            a1=(-vd+rad.sqrt())/d2; a2=(-vd-rad.sqrt())/d2; small=a1 if a1.abs()<=a2.abs() else a2
            if abs((alpha-small).item())>1e-9*max(1e-12,abs(small.item())): stats["root_bad"]+=1
            if int(d._active_states[m])!=j: stats["econs_bad"]+=1
        else:
            stats["frustrated"]+=1
            if not torch.equal(mol.velocities[m],v0[m]) or int(d._active_states[m])!=i: stats["frust_touched"]+=1
            if not d._decohere_on_hop and not torch.equal(d._amp_phase[m],ampp0[m]): stats["frust_touched"]+=1
print(stats)
