# P3/P4: crash between checkpoints (soft / hard) + resume vs uninterrupted, real SEQM, several engines
import os, sys, io, contextlib, json, time, shutil
import numpy as np, torch, h5py
torch.set_num_threads(1)
REPO=os.environ.get("VERIF_REPO","/repo"); sys.path.insert(0,REPO)
import seqm, seqm.MolecularDynamics as MDm
from seqm.seqm_functions.constants import Constants
from seqm.Molecule import Molecule
torch.set_default_dtype(torch.float64)
ENG={"basic":(MDm.Molecular_Dynamics_Basic,{}),"langevin":(MDm.Molecular_Dynamics_Langevin,{"damp":20.0}),
     "xl5":(MDm.XL_BOMD,{"xl_bomd_params":{"k":5}}),"xl3":(MDm.XL_BOMD,{"xl_bomd_params":{"k":3}}),
     "ksa":(MDm.KSA_XL_BOMD,{"xl_bomd_params":{"k":6,"max_rank":2,"err_threshold":0.0,"T_el":1500}}),
     "exc":(MDm.Molecular_Dynamics_Basic,{}),"xlexc":(MDm.XL_BOMD,{"xl_bomd_params":{"k":5}})}
def build(eng):
    species = torch.as_tensor([[8,6,1,1],[8,6,1,1]],dtype=torch.int64)
    coords = torch.tensor([[[0.0,0,0],[1.22,0,0],[1.82,0.94,0],[1.82,-0.94,0]],[[0.0,0,0],[1.25,0,0],[1.80,0.96,0.02],[1.84,-0.92,0]]])
    sp={'method':'AM1','scf_eps':1e-8,'scf_converger':[1]}
    if eng in ("exc","xlexc"): sp.update({"excited_states":{"n_states":3,"method":"cis"},"active_state":1})
    return sp, species, coords
def run(eng, prefix, steps, ck, crash=None):
    cls,kw=ENG[eng]; sp,species,coords=build(eng)
    out={"molid":[0,1],"prefix":prefix,"print every":0,"checkpoint every":ck,"xyz":1,"h5":{"data":1,"coordinates":1,"velocities":1,"forces":1}}
    mol=Molecule(Constants(),sp,coords,species)
    md=cls(seqm_parameters=sp,timestep=0.4,Temp=300.0,output=out,**kw)
    if crash:
        kind,at=crash; orig=MDm.HDF5Writer.append_vectors
        def patched(self, step_idx, molecule):
            orig(self, step_idx, molecule)
            if step_idx==at:
                if kind=="hard": os._exit(137)
                raise RuntimeError("crash")
        MDm.HDF5Writer.append_vectors=patched
    with contextlib.redirect_stdout(io.StringIO()):
        md.run(mol,steps=steps,reuse_P=True,remove_com=None,seed=3)
def child(fn,*a):
    pid=os.fork()
    if pid==0:
        try: fn(*a); os._exit(0)
        except BaseException as e:
            sys.stderr.write("child exc: %r\n"%(e,)); os._exit(3)
    return os.waitpid(pid,0)[1]>>8
def resume(path):
    with contextlib.redirect_stdout(io.StringIO()): MDm.Molecular_Dynamics_Basic.run_from_checkpoint(path)
def dump(prefix):
    d={}
    for m in (0,1):
        with h5py.File(f"{prefix}.{m}.h5","r") as f:
            def v(name,obj):
                if isinstance(obj,h5py.Dataset): d[f"{m}:{name}"]=obj[...]
            f.visititems(v)
        d[f"{m}:xyz"]=[l.split()[1] for l in open(f"{prefix}.{m}.xyz") if l.startswith("step:")]
    return d
eng=sys.argv[1]; steps=int(sys.argv[2]); ck=int(sys.argv[3]); kind=sys.argv[4]; at=int(sys.argv[5])
D="/tmp/scratch/p3"; shutil.rmtree(D,ignore_errors=True); os.makedirs(D)
t0=time.time()
print("ref exit", child(run,eng,D+"/ref",steps,ck))
print("crash exit", child(run,eng,D+"/crs",steps,ck,(kind,at)))
print("resume exit", child(resume,D+"/crs.restart.pt"))
a=dump(D+"/ref"); b=dump(D+"/crs")
worst=0
for k in a:
    if k.endswith("xyz"):
        if a[k]!=b[k]: print("XYZ DIFF",k,b[k])
        continue
    if a[k].shape!=b[k].shape: print("SHAPE",k); continue
    if a[k].dtype.kind in "iu":
        if not np.array_equal(a[k],b[k]): print("INT DIFF",k,a[k],b[k])
    else:
        dd=np.nanmax(np.abs(a[k]-b[k])) if a[k].size else 0
        bit=np.array_equal(a[k],b[k],equal_nan=True)
        if not bit: print("FLOAT DIFF",k,dd)
        worst=max(worst,dd)
print(eng,"worst float diff",worst,"wall",round(time.time()-t0,1))
