import os, sys
import numpy as np, torch, h5py
torch.set_num_threads(1)
sys.path.insert(0,os.environ.get("VERIF_REPO","/repo"))
import seqm
from seqm.seqm_functions.constants import Constants
from seqm.Molecule import Molecule
from seqm.ElectronicStructure import Electronic_Structure
torch.set_default_dtype(torch.float64)
species = torch.as_tensor([[8,1,1]],dtype=torch.int64)
sp={'method':'AM1','scf_eps':1e-11,'scf_converger':[2],'elements':[0,1,8]}
es=Electronic_Structure(sp)
with h5py.File("/tmp/scratch/p29/t.0.h5") as f: X=f["coordinates/values"][...]; V=f["velocities/values"][...]
x0=torch.tensor(X[0:1]); d=torch.tensor(V[0:1])
def EF(x):
    m=Molecule(Constants(),sp,x.clone(),species); m.verbose=False; es(m); return m.Etot.item(), m.force.clone()
ss=np.arange(-0.02,0.0201,0.001)
E=[];Fd=[];F=[]
for s in ss:
    e,f=EF(x0+s*d); E.append(e); Fd.append((f*d).sum().item()); F.append(f)
E=np.array(E); Fd=np.array(Fd)
# predicted smooth: use quadratic fit on far points
print(" s      E-E(0)        F.d       |dF| to next")
for i,s in enumerate(ss):
    nxt=(F[i+1]-F[i]).abs().max().item() if i+1<len(ss) else float('nan')
    print(f"{s:+.3f} {E[i]-E[len(ss)//2]:+.3e} {Fd[i]:+.6f} {nxt:.2e}")
print("bond O-H1 direction at X0:", ((x0[0,1]-x0[0,0])/ (x0[0,1]-x0[0,0]).norm()).tolist())
