import time, torch, os, sys, io, contextlib, types
torch.set_num_threads(1)
import seqm, seqm.MolecularDynamics as MDm
from seqm.seqm_functions.constants import Constants
from seqm.Molecule import Molecule
torch.set_default_dtype(torch.float64)

class StubES(torch.nn.Module):
    def __init__(self, seqm_parameters, *a, **k):
        super().__init__()
        self.seqm_parameters = seqm_parameters
        self._p = torch.nn.Parameter(torch.zeros(1), requires_grad=False)
        energy = types.SimpleNamespace(md=False, namd=False, excited_states=None, method=seqm_parameters.get("method"))
        self.conservative_force = types.SimpleNamespace(energy=energy)
        self.calls = 0
    def forward(self, molecule, learned_parameters=None, xl_bomd_params=None, P0=None, dm_prop="SCF", cis_amp=None, **kw):
        self.calls += 1
        R = molecule.coordinates.detach()
        real = (molecule.species > 0)
        nmol, n = molecule.species.shape
        d = R.unsqueeze(1) - R.unsqueeze(2)           # (nmol,n,n,3) r_j - r_i at [i? ]
        r2 = (d*d).sum(-1)
        pm = (real.unsqueeze(1) & real.unsqueeze(2)) & ~torch.eye(n, dtype=torch.bool).unsqueeze(0)
        r = torch.sqrt(r2 + (~pm).to(R.dtype))
        r0, kk = 1.0, 20.0
        e_pair = 0.5*kk*(r-r0)**2 * pm
        E = 0.5*e_pair.sum((1,2))
        # force on atom i: -dE/dRi = sum_j k (r_ij - r0) * (Rj-Ri)/r_ij
        f = (kk*(r-r0)/r * pm).unsqueeze(-1) * (R.unsqueeze(1) - R.unsqueeze(2))
        F = f.sum(2)  # check sign numerically below
        molecule.force = F
        molecule.Etot = E; molecule.Hf = E; molecule.Eelec = E; molecule.Enuc = torch.zeros_like(E); molecule.Eiso = torch.zeros_like(E)
        norb = 4*n
        # synthetic "ground-state density": smooth function of R
        Dstar = torch.exp(-r2).repeat_interleave(4,1).repeat_interleave(4,2)
        if dm_prop == "XL-BOMD":
            g = 0.3
            molecule.dm = Dstar + g*(P0 - Dstar)
            molecule.Electronic_entropy = torch.zeros(nmol)
            molecule.dP2dt2 = molecule.dm - P0
            molecule.Etot = E + 0.5*((P0-Dstar)**2).sum((1,2))*0.0
        else:
            molecule.dm = Dstar
        molecule.e_gap = torch.ones(nmol); molecule.e_mo = torch.zeros(nmol, norb)
        molecule.dipole = torch.zeros(nmol,3)
        molecule.q = torch.zeros(nmol, n)
MDm.esdriver = StubES
species = torch.as_tensor([[8,1,1],[1,1,0]],dtype=torch.int64)
coords = torch.tensor([[[0.0,0.0,0.0],[0.96,0.0,0.0],[-0.24,0.93,0.0]],[[0.0,0.0,0.0],[0.74,0.0,0.0],[0.0,0.0,0.0]]])
const = Constants()
sp = {'method':'AM1','scf_eps':1e-8,'scf_converger':[1]}
def run(cls, prefix, steps, **kw):
    out = {"molid":[0,1],"prefix":prefix,"print every":0,"checkpoint every":4,"xyz":1,"h5":{"data":1,"coordinates":1,"velocities":1,"forces":1}}
    mol = Molecule(const, dict(sp), coords.clone(), species)
    md = cls(seqm_parameters=dict(sp), timestep=0.5, Temp=300.0, output=out, **kw)
    t0=time.time()
    with contextlib.redirect_stdout(io.StringIO()):
        md.run(mol, steps=steps, reuse_P=True, remove_com=None, seed=0)
    return time.time()-t0, mol
# verify force sign by finite difference
mol = Molecule(const, dict(sp), coords.clone(), species); s=StubES(sp); s(mol); F=mol.force.clone(); E0=mol.Etot.clone()
with torch.no_grad(): mol.coordinates[0,1,0]+=1e-6
s(mol); print("fd", -(mol.Etot[0]-E0[0])/1e-6, "F", F[0,1,0])
for cls,kw in ((MDm.Molecular_Dynamics_Basic,{}),(MDm.Molecular_Dynamics_Langevin,{"damp":20.0}),(MDm.XL_BOMD,{"xl_bomd_params":{"k":5}}),(MDm.KSA_XL_BOMD,{"xl_bomd_params":{"k":5,"max_rank":2,"err_threshold":0.0,"T_el":1500}})):
    dt, mol = run(cls, f"/tmp/scratch/run8_{cls.__name__}", 40, **kw)
    import h5py
    with h5py.File(f"/tmp/scratch/run8_{cls.__name__}.0.h5") as f:
        Et = f["data/thermo/Ek"][...]+f["data/thermo/Ep"][...]
    print(cls.__name__, "40 steps", round(dt,3), "Etot drift", Et.max()-Et.min())
t0=time.time()
with contextlib.redirect_stdout(io.StringIO()):
    MDm.Molecular_Dynamics_Basic.run_from_checkpoint("/tmp/scratch/run8_XL_BOMD.restart.pt")
print("resume ok", time.time()-t0)
