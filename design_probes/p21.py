# R6: CIS/RPA along a geometry history with amplitude reuse, vs dense reference from the code's sigma routine
import os, sys, types, random
import torch
torch.set_num_threads(1)
sys.path.insert(0,os.environ.get("VERIF_REPO","/repo"))
import seqm
from seqm.seqm_functions.constants import Constants
from seqm.Molecule import Molecule
from seqm.ElectronicStructure import Electronic_Structure
import seqm.seqm_functions.rcis_batch as RB
torch.set_default_dtype(torch.float64)
M={"h2co":([[8,6,1,1]],[[[0.0,0,0],[1.22,0,0],[1.82,0.94,0],[1.82,-0.94,0]]]),
   "ch4":([[6,1,1,1,1]],[[[0.0,0.0,0.0],[0.63,0.63,0.63],[-0.63,-0.63,0.63],[-0.63,0.63,-0.63],[0.63,-0.63,-0.63]]]),
   "h2o":([[8,1,1]],[[[0.0,0.0,0.0],[0.96,0.0,0.0],[-0.24,0.93,0.0]]])}
def dense(mol, rpa=False):
    nocc,nvirt,Cocc,Cvirt,ea_ei=RB.get_occ_virt(mol,None,mol.e_mo); nov=nocc*nvirt; nm=mol.nmol
    V=torch.eye(nov).unsqueeze(0).expand(nm,nov,nov).contiguous()
    A=RB.matrix_vector_product_batched(mol,V,mol.w,ea_ei,Cocc,Cvirt)
    A=0.5*(A+A.transpose(1,2)); return torch.linalg.eigvalsh(A), A
rng=random.Random(int(sys.argv[1]) if len(sys.argv)>1 else 0); g=torch.Generator().manual_seed(rng.randint(0,10**6))
worst=0; bad=0
for trial in range(int(sys.argv[2]) if len(sys.argv)>2 else 12):
    name=rng.choice(list(M)); sp_,co=M[name]; nb=rng.choice([1,1,2,3])
    nst=rng.randint(1,6 if name!="h2o" else 4); tol=rng.choice([1e-5,1e-6,1e-8]); avail=rng.choice([8*2**30, 20000*nb, 12000*nb])
    RB.psutil=types.SimpleNamespace(virtual_memory=lambda a=avail: types.SimpleNamespace(available=a))
    sp={'method':rng.choice(['AM1','PM3','MNDO']),'scf_eps':1e-10,'scf_converger':[1],'excited_states':{'n_states':nst,'method':'cis','tolerance':tol,'make_best_guess':rng.random()<0.7}}
    base=torch.tensor(co).repeat(nb,1,1)+0.03*torch.randn(nb,len(sp_[0]),3,generator=g)
    mol=Molecule(Constants(),sp,base.clone(),torch.as_tensor(sp_*nb,dtype=torch.int64)); mol.verbose=False
    es=Electronic_Structure(sp)
    for step in range(rng.randint(2,5)):
        try:
            es(mol,P0=mol.dm,cis_amp=mol.cis_amplitudes)
        except Exception as e:
            print("EXC",name,nb,nst,tol,avail,step,type(e).__name__,str(e)[:80]); break
        ev,A=dense(mol); n=mol.cis_energies.shape[1]
        dE=(mol.cis_energies-ev[:,:n]).abs().max().item()
        amp=mol.cis_amplitudes; res=(torch.einsum("bri,bij->brj",amp,A)-mol.cis_energies.unsqueeze(2)*amp).norm(dim=2).max().item()
        orth=(amp@amp.transpose(1,2)-torch.eye(n)).abs().max().item()
        worst=max(worst,dE/tol)
        flag = dE>10*tol or res>10*tol or orth>1e-8
        if flag: bad+=1
        print(f"{name} nb={nb} n={nst}->{n} tol={tol:g} mem={avail} step={step}: dE={dE:.1e} res={res:.1e} orth={orth:.1e} {'<<< FLAG' if flag else ''}")
        with torch.no_grad(): mol.coordinates.add_(0.02*torch.randn(mol.coordinates.shape,generator=g))
print("worst dE/tol",worst,"flags",bad)
