import os, sys, io, contextlib, shutil
import numpy as np, torch, h5py
torch.set_num_threads(1)
sys.path.insert(0,"/repo")
import seqm, seqm.MolecularDynamics as MDm
from seqm.seqm_functions.constants import Constants
from seqm.Molecule import Molecule
from seqm.ElectronicStructure import Electronic_Structure
torch.set_default_dtype(torch.float64)
species = torch.as_tensor([[8,1,1]],dtype=torch.int64)
coords = torch.tensor([[[0.0,0.0,0.0],[0.96,0.0,0.0],[-0.24,0.93,0.0]]])
D="/tmp/scratch/p27"; shutil.rmtree(D,ignore_errors=True); os.makedirs(D)
sp={'method':'AM1','scf_eps':1e-10,'scf_converger':[1]}
out={"molid":[0],"prefix":f"{D}/t","print every":0,"checkpoint every":0,"xyz":0,"h5":{"data":1,"coordinates":1,"velocities":1,"forces":1}}
mol=Molecule(Constants(),sp,coords.clone(),species)
md=MDm.Molecular_Dynamics_Basic(seqm_parameters=sp,timestep=0.2,Temp=400.0,output=out)
with contextlib.redirect_stdout(io.StringIO()): md.run(mol,steps=10,reuse_P=True,remove_com=None,seed=2)
with h5py.File(f"{D}/t.0.h5") as f:
    X=f["coordinates/values"][...]; V=f["velocities/values"][...]; F=f["forces/values"][...]; Ep=f["data/thermo/Ep"][...]; Ek=f["data/thermo/Ek"][...]
sp2={'method':'AM1','scf_eps':1e-11,'scf_converger':[2],'elements':[0,1,8]}
es=Electronic_Structure(sp2)
mass=mol.mass[0,:,0].numpy()
for n in (0,1,5,10):
    m2=Molecule(Constants(),sp2,torch.tensor(X[n:n+1]),species); m2.verbose=False; es(m2)
    ke=0.5*(mass[:,None]*V[n]**2).sum()*MDm.CONSTANTS.KINETIC_ENERGY_SCALE
    print(f"step {n}: Ep_h5-Ep_fresh {Ep[n]-m2.Etot.item():.2e}  max|F_h5-F_fresh| {np.abs(F[n]-m2.force[0].numpy()).max():.2e}  Ek_h5-Ek(v) {Ek[n]-ke:.2e}")
# independent velocity verlet using fresh forces, compare positions at step 10
x=torch.tensor(X[0:1]); v=torch.tensor(V[0:1]); dt=0.2; minv=torch.tensor(1.0/mass).view(1,3,1)
def force(x):
    m2=Molecule(Constants(),sp2,x.clone(),species); m2.verbose=False; es(m2); return m2.force.clone(), m2.Etot.item()
f,e=force(x); a=f*minv*MDm.CONSTANTS.ACC_SCALE; E0=e+0.5*(torch.tensor(mass).view(1,3,1)*v**2).sum().item()*MDm.CONSTANTS.KINETIC_ENERGY_SCALE
for n in range(10):
    v=v+0.5*a*dt; x=x+v*dt; f,e=force(x); a=f*minv*MDm.CONSTANTS.ACC_SCALE; v=v+0.5*a*dt
print("independent VV vs engine at step 10: dx",(x[0].numpy()-X[10]).__abs__().max(), "dv",np.abs(v[0].numpy()-V[10]).max())
E10=e+0.5*(torch.tensor(mass).view(1,3,1)*v**2).sum().item()*MDm.CONSTANTS.KINETIC_ENERGY_SCALE
print("independent VV energy change",E10-E0,"engine", (Ep[10]+Ek[10])-(Ep[0]+Ek[0]))
