import os, sys, time
import torch
torch.set_num_threads(1)
sys.path.insert(0,os.environ.get("VERIF_REPO","/repo"))
import seqm
from seqm.seqm_functions.constants import Constants
from seqm.Molecule import Molecule
from seqm.ElectronicStructure import Electronic_Structure
torch.set_default_dtype(torch.float64)
class SimTimeout(BaseException): pass
budget=[0]
def tracer(frame, event, arg):
    if "/seqm/" in frame.f_code.co_filename: return local
def local(frame, event, arg):
    if event=="line":
        budget[0]-=1
        if budget[0]<0: raise SimTimeout(f"{frame.f_code.co_filename}:{frame.f_lineno}")
    return local
ch4=[[0.0,0.0,0.0],[0.63,0.63,0.63],[-0.63,-0.63,0.63],[-0.63,0.63,-0.63],[0.63,-0.63,-0.63]]
cases={
 "CH4+H-": ([[6,1,1,1,1],[1,0,0,0,0]],[ch4,[[0.0,0,0]]*5],[0.0,-1.0]),
 "CH4+CH3-": ([[6,1,1,1,1],[6,1,1,1,0]],[ch4,[[0.0,0,0.1],[1.05,0,-0.2],[-0.52,0.91,-0.2],[-0.52,-0.91,-0.2],[0,0,0]]],[0.0,-1.0]),
 "CH4+NH2-": ([[6,1,1,1,1],[7,1,1,0,0]],[ch4,[[0.0,0,0],[1.02,0,0],[-0.25,0.99,0],[0,0,0],[0,0,0]]],[0.0,-1.0]),
 "CH4+O2-(dianion atom)": ([[6,1,1,1,1],[8,0,0,0,0]],[ch4,[[0.0,0,0]]*5],[0.0,-2.0]),
 "CH4+H2O2-": ([[6,1,1,1,1],[8,1,1,0,0]],[ch4,[[0.0,0.0,0.0],[0.96,0.0,0.0],[-0.24,0.93,0.0],[0,0,0],[0,0,0]]],[0.0,-2.0]),
}
for name,(sp_,co,ch) in cases.items():
  for sp2 in ([False],[True,1e-5]):
    sp={'method':'AM1','scf_eps':1e-6,'scf_converger':[0,0.2],'sp2':sp2}
    mol=Molecule(Constants(),sp,torch.tensor(co),torch.as_tensor(sp_,dtype=torch.int64),charges=torch.tensor(ch)); mol.verbose=False
    es=Electronic_Structure(sp)
    budget[0]=400000; t0=time.time()
    sys.settrace(tracer)
    try:
        es(mol); sys.settrace(None); print(name,sp2,"ok E",[round(x,6) for x in mol.Etot.tolist()],"notconv",es.notconverged.tolist(),"lines",400000-budget[0],"homo/lumo",[ (round(mol.e_mo[i,int(mol.nocc[i])-1].item(),3), round(mol.e_mo[i,int(mol.nocc[i])].item(),3)) for i in range(2)])
    except SimTimeout as e:
        sys.settrace(None); print(name,sp2,"SIMTIMEOUT at",e,"wall",round(time.time()-t0,2))
    except Exception as e:
        sys.settrace(None); print(name,sp2,"EXC",repr(e)[:200])
