#!/bin/bash
# usage: tools_confirm_seeded.sh <worktree> <id>
# Confirms a sub-agent's seeded change in its scratch worktree: demo fails with it, passes without it,
# the repository's test suite passes with it.  Copies patch, demo and meta to /verif/seeded/<id>/.
WT=$1; ID=$2; OUT=/verif/seeded/$ID
mkdir -p $OUT
cd $WT || exit 2
export OMP_NUM_THREADS=2 MKL_NUM_THREADS=2
git diff -- seqm scripts > $OUT/patch.diff
cp _seeded/demo.py $OUT/demo.py
cp _seeded/meta.json $OUT/meta.agent.json
{
echo "== demo WITH the change (expect exit 1)"; timeout 900 /venv/bin/python _seeded/demo.py 2>&1 | grep -v Warning | tail -15; echo "exit=${PIPESTATUS[0]}"
echo "== test suite WITH the change"; timeout 7200 /venv/bin/python -m pytest -q -p no:cacheprovider --timeout=1800 2>&1 | tail -6
# (no git stash here: the stash is shared by all worktrees of a repository, and other sub-agents may be using it)
git apply -R $OUT/patch.diff
echo "== demo WITHOUT the change (expect exit 0)"; timeout 900 /venv/bin/python _seeded/demo.py 2>&1 | grep -v Warning | tail -5; echo "exit=${PIPESTATUS[0]}"
git apply $OUT/patch.diff
} > $OUT/confirm.log 2>&1
echo done >> $OUT/confirm.log
