"""usage: tools_seeded_meta.py <id> <check> <caught: yes|no|after-strengthening> <note>"""
import json, os, re, sys
sid, check, caught, note = sys.argv[1:5]
d = f"/verif/seeded/{sid}"
a = json.load(open(f"{d}/meta.agent.json"))
log = open(f"{d}/confirm.log").read()
clean = "\n".join(l for l in log.splitlines() if l.strip() and "Warning" not in l and l.strip() != '"""')
m = {
    "id": sid,
    "property": a.get("property"),
    "summary": a.get("summary"),
    "needs_to_manifest": a.get("needs"),
    "files": a.get("files"),
    "origin": "independent sub-agent given only the property text and its own scratch worktree (nothing from /verif)",
    "agent_tests_run": a.get("tests_run"),
    "confirmed_by_me": {
        "how": "tools_confirm_seeded.sh in the scratch worktree: demo with the change, full repository test suite with the change (OMP_NUM_THREADS=2), demo without the change",
        "demo_with_change_exit": int(re.search(r"WITH the change \(expect exit 1\).*?exit=(\d+)", clean, re.S).group(1)),
        "suite_with_change": re.search(r"(\d+ passed[^\n]*)", clean).group(1),
        "demo_without_change_exit": int(re.search(r"WITHOUT the change.*?exit=(\d+)", clean, re.S).group(1)),
    },
    "check": check,
    "caught": caught,
    "note": note,
}
json.dump(m, open(f"{d}/meta.json", "w"), indent=1)
os.remove(f"{d}/meta.agent.json")
print(json.dumps(m["confirmed_by_me"]))
